"""Python -> Lean translator for the decision logic of testtools' Deferred helpers (C20).

Run on every check of C20 (through `c20.extract_tables`): `on_deferred_result`, `extract_result` (twistedsupport/_deferred.py),
`_NoResult/_Succeeded/_Failed.match` with the handlers they pass (twistedsupport/_matchers.py) and
`SynchronousDeferredRunTest._run_user` (twistedsupport/_runtest.py) are re-read from the tree under test and emitted as DATA of the
types of `TTV/Model/DeferredSkel.lean` into `TTV/Generated/DeferredSrc.lean`.  The interpreters there give the data its meaning over
the M-Deferred model; `C20_src_*` (Props/C20.lean) prove that the hand-written `matchOp` / `extractOp` / `runUser` ARE the
interpretation of what was found in the source.

What is recognised (everything else becomes `.unknown` / `false`, which no reference term contains, so the proofs break):
* `on_deferred_result`: two empty-list bindings; one `deferred.addCallbacks(cb, eb)` (positional or `callback=`/`errback=`) whose two
  arguments each append their argument to one of the lists and return it unchanged - `partial(capture, values=L)` / `lambda v: capture(v, L)`
  with a nested `capture(value, values)` that appends and returns, or a nested one-parameter function doing the same for a fixed list (the
  lists are identified by their ROLE, so renaming them is harmless); then a chain of terminating arms - `if/elif/else` or consecutive `if`s, equivalent because every arm
  returns or raises; an arm that starts with a nested terminating `if` is two arms - with guards `S and F`, `F`, `S` (also `len(x)`,
  `len(x) == 1`, `len(x) > 0`), `not S and not F`, `not deferred.called`, `else`, in the ORDER of the source (that a reordering of
  mutually exclusive arms means the same is decided in Lean, by evaluating the interpreter on the generated arms, not here),
  and arms `raise ImpossibleDeferredError(...)`, `[x] = F; return on_failure(deferred, x)` (or `F[0]`), same for success,
  `return on_no_result(deferred)`.
* a matcher's `match`: exactly `return on_deferred_result(deferred, on_success=…, on_failure=…, on_no_result=…)` (keywords in any order);
  each handler is a method of the class or a lambda; its body (after the normalisations of harness/pynorm.py, e.g. a result bound to a local
  and returned at once): `deferred.addErrback(lambda _: None)` (swallow; any parameter name), `return Mismatch(...)`
  (whatever the message), `return self._matcher.match(<its result parameter>)`, `return None`.  Messages are not translated.
* `extract_result`: two empty-list bindings, `deferred.addCallbacks(S.append, F.append)`, arms `F[0].raiseException()`,
  `return S[0]`, `raise DeferredNotFired(deferred)`; falling off the end is the arm `(otherwise, returnNone)`; statements that follow an
  unconditional raise inside an arm (`Failure.raiseException()` always raises) are dead code and dropped.
* `_run_user(self, function, /, *args, **kwargs)`: the SIGNATURE is data of its own (`runUserSig`: the two named parameters positional-only,
  `*args`, `**kwargs` - `_run_cleanups` hands the keyword arguments of `addCleanup` through it and no keyword NAME may collide with a
  parameter; seed C20-g dropped the `/`); the body: `d = defer.maybeDeferred(lambda: function(*args, **kwargs))` = `.maybeDeferred true` (a
  thunk: nothing of the user's reaches maybeDeferred's own parameters) or `d = defer.maybeDeferred(function, *args, **kwargs)` =
  `.maybeDeferred false` (handed over: a keyword called `f` collides with maybeDeferred's first parameter - not what the model is the reading
  of); the form without `**kwargs` is `.unknown`; `d.addErrback(self._got_user_failure)`, `return extract_result(d)` (directly or through
  one local).
* `_got_user_failure(self, failure, tb_label=...)` - the errback `_run_user` installs; looked up on `SynchronousDeferredRunTest` and, when it does
  not define it, on its single base `_DeferredRunTest`: exactly `return self._got_user_exception((failure.type, failure.value,
  failure.getTracebackObject()), tb_label=tb_label)` = EVERY failure is reported as the user's exception, whatever its class (seed C20-f let
  failures of class DeferredNotFired through); any other statement is `.unknown`.
Trusted: this recogniser (a bug here could make a changed source look unchanged) and that `TTV.DeferredSkel.*I` read these forms as
Python does.
"""
import ast, os
from harness import pynorm
from harness.pynorm import canon


def find(tree, path):
    node = tree
    for part in path.split('.'):
        for child in ast.iter_child_nodes(node):
            if isinstance(child, (ast.FunctionDef, ast.ClassDef)) and child.name == part:
                node = child
                break
        else:
            raise ValueError('%s not found' % path)
    return node


def body_of(fn):
    """the statements of a function after the behaviour-preserving normalisations of harness/pynorm.py (docstrings dropped, `if … else` after
    a returning branch flattened, temporaries and effect-free aliases inlined, …)"""
    return pynorm.normal_body(fn)


def empty_list_binding(s):
    """`x = []` / `x: T = []` -> name"""
    if isinstance(s, ast.Assign) and len(s.targets) == 1 and isinstance(s.targets[0], ast.Name):
        t, v = s.targets[0].id, s.value
    elif isinstance(s, ast.AnnAssign) and isinstance(s.target, ast.Name) and s.value is not None:
        t, v = s.target.id, s.value
    else:
        return None
    return t if isinstance(v, ast.List) and not v.elts else None


def guard(t, S, F, dname):
    """test expression -> Lean Guard"""
    def role(e):
        u = ast.unparse(e)
        for name, r in ((S, 'S'), (F, 'F')):
            if u in (name, 'len(%s)' % name, 'len(%s) == 1' % name, 'len(%s) > 0' % name, 'len(%s) != 0' % name, 'len(%s) >= 1' % name):
                return r
        return None
    if isinstance(t, ast.BoolOp) and isinstance(t.op, ast.And) and len(t.values) == 2 and {role(t.values[0]), role(t.values[1])} == {'S', 'F'}:
        return '.both'

    def neg(e):
        return role(e.operand) if isinstance(e, ast.UnaryOp) and isinstance(e.op, ast.Not) else None
    if isinstance(t, ast.BoolOp) and isinstance(t.op, ast.And) and len(t.values) == 2 and {neg(t.values[0]), neg(t.values[1])} == {'S', 'F'}:
        return '.neither'
    if isinstance(t, ast.UnaryOp) and isinstance(t.op, ast.Not) and isinstance(t.operand, ast.BoolOp) and isinstance(t.operand.op, ast.Or) \
            and len(t.operand.values) == 2 and {role(t.operand.values[0]), role(t.operand.values[1])} == {'S', 'F'}:
        return '.neither'
    r = role(t)
    if r:
        return '.failures' if r == 'F' else '.successes'
    if ast.unparse(t) == 'not %s.called' % dname:
        return '.notCalled'
    return '.unknown'


def arms_of(stmts, guard_of, arm_of, fall_off):
    """a sequence of terminating `if` statements (with elif/else) -> [(guard, arm)]; every recognised arm returns or raises, so
    consecutive ifs and elifs are the same list; statements after the chain that always run are the `otherwise` arm"""
    out = []
    i = 0
    while i < len(stmts):
        s = stmts[i]
        if isinstance(s, ast.If):
            g = guard_of(s.test)
            body = s.body
            # an arm that begins with a nested terminating `if g2: A2` is the two arms (g and g2 -> A2), (g -> the rest)
            if body and isinstance(body[0], ast.If) and not body[0].orelse and pynorm.terminates(body[0].body) and len(body) > 1:
                both = {g, guard_of(body[0].test)}
                out.append(('.both' if both == {'.failures', '.successes'} else '.unknown', arm_of(body[0].body)))
                body = body[1:]
            out.append((g, arm_of(body)))
            if s.orelse:
                # the arm above leaves the function, so the else-branch is simply what comes next
                after = stmts[i + 1:]
                if after and pynorm.terminates(s.orelse):
                    after = []                                        # (unreachable: both branches leave)
                stmts = stmts[:i + 1] + list(s.orelse) + after
            i += 1
            continue
        out.append(('.otherwise', arm_of(stmts[i:])))
        return out
    if fall_off is not None:
        out.append(('.otherwise', fall_off))
    return out


# ---------------------------------------------------------------- on_deferred_result
def on_deferred_result(fn):
    params = [a.arg for a in fn.args.args]
    if len(params) != 4:
        return '{ captureOk := false, installsCapturePair := false, arms := [] }'
    dname, on_s, on_f, on_n = params
    stmts = body_of(fn)
    lists, installs, S, F = [], False, None, None
    generic, dedicated = {}, {}         # local functions: capture(value, values) / got_x(value) appending to one fixed list
    capture_ok = False
    rest = []

    def appender(a):
        """the list a callable appends its argument to before returning it unchanged, or None"""
        if isinstance(a, ast.Name) and a.id in dedicated:
            return dedicated[a.id]
        if isinstance(a, ast.Call) and ast.unparse(a.func) in ('partial', 'functools.partial') and len(a.args) == 1 \
                and ast.unparse(a.args[0]) in generic and len(a.keywords) == 1 and a.keywords[0].arg == generic[ast.unparse(a.args[0])] \
                and isinstance(a.keywords[0].value, ast.Name) and a.keywords[0].value.id in lists:
            return a.keywords[0].value.id
        if isinstance(a, ast.Lambda) and len(a.args.args) == 1 and isinstance(a.body, ast.Call) and ast.unparse(a.body.func) in generic \
                and len(a.body.args) == 2 and not a.body.keywords and ast.unparse(a.body.args[0]) == a.args.args[0].arg \
                and isinstance(a.body.args[1], ast.Name) and a.body.args[1].id in lists:
            return a.body.args[1].id
        return None
    for k, s in enumerate(stmts):
        n = empty_list_binding(s)
        if n and not rest:
            lists.append(n)
            continue
        if isinstance(s, ast.FunctionDef) and not rest:
            b = body_of(s)
            ps = [a.arg for a in s.args.args]
            if len(ps) == 2 and len(b) == 2 and ast.unparse(b[0]) == '%s.append(%s)' % (ps[1], ps[0]) and ast.unparse(b[1]) == 'return %s' % ps[0]:
                generic[s.name] = ps[1]
                continue
            if len(ps) == 1 and len(b) == 2 and ast.unparse(b[1]) == 'return %s' % ps[0]:
                for lst in lists:
                    if ast.unparse(b[0]) == '%s.append(%s)' % (lst, ps[0]):
                        dedicated[s.name] = lst
                if s.name in dedicated:
                    continue
            rest.append(s)
            continue
        if isinstance(s, ast.Expr) and isinstance(s.value, ast.Call) and ast.unparse(s.value.func) == dname + '.addCallbacks' and not rest and not installs:
            c = s.value
            pair = None
            if len(c.args) == 2 and not c.keywords:
                pair = c.args
            elif not c.args and sorted(kw.arg for kw in c.keywords) == ['callback', 'errback']:
                pair = [[kw.value for kw in c.keywords if kw.arg == n][0] for n in ('callback', 'errback')]
            if pair:
                got = [appender(a) for a in pair]
                if None not in got and got[0] != got[1]:
                    S, F = got
                    installs = capture_ok = True
                    continue
            rest.append(s)
            continue
        rest.append(s)

    def arm(body):
        b = [x for x in body if not (isinstance(x, ast.Expr) and isinstance(x.value, ast.Constant))]
        for k, x in enumerate(b):            # statements after an unconditional raise are dead code
            if isinstance(x, ast.Raise):
                b = b[:k + 1]
                break
        if len(b) == 1 and isinstance(b[0], ast.Raise) and b[0].exc is not None and ast.unparse(b[0].exc).startswith('ImpossibleDeferredError('):
            return '.raiseImpossible'
        if len(b) == 1 and isinstance(b[0], ast.Return) and ast.unparse(b[0].value) == '%s(%s)' % (on_n, dname):
            return '.callNoResult'
        for lst, handler, res in ((F, on_f, '.callFailure'), (S, on_s, '.callSuccess')):
            if lst is None:
                continue
            if len(b) == 1 and isinstance(b[0], ast.Return) and ast.unparse(b[0].value) == '%s(%s, %s[0])' % (handler, dname, lst):
                return res
            if len(b) == 2 and isinstance(b[0], ast.Assign) and len(b[0].targets) == 1 and isinstance(b[1], ast.Return):
                t = b[0].targets[0]
                x = None
                if isinstance(t, (ast.List, ast.Tuple)) and len(t.elts) == 1 and isinstance(t.elts[0], ast.Name) and ast.unparse(b[0].value) == lst:
                    x = t.elts[0].id
                if isinstance(t, ast.Name) and ast.unparse(b[0].value) == lst + '[0]':
                    x = t.id
                if x and ast.unparse(b[1].value) == '%s(%s, %s)' % (handler, dname, x):
                    return res
        return '.unknown'
    arms = arms_of(rest, lambda t: guard(t, S, F, dname) if installs else '.unknown', arm, None) if installs else []
    return '{ captureOk := %s, installsCapturePair := %s,\n      arms := [%s] }' % (
        'true' if capture_ok else 'false', 'true' if installs else 'false', ', '.join('(%s, %s)' % a for a in arms))


# ---------------------------------------------------------------- matchers
def handler(cls, expr, has_arg):
    """the callable passed as on_success / on_failure / on_no_result -> Lean Handler"""
    if isinstance(expr, ast.Lambda):
        ps = [a.arg for a in expr.args.args]
        stmts = [ast.Return(value=expr.body)]
    elif isinstance(expr, ast.Attribute) and isinstance(expr.value, ast.Name) and expr.value.id == 'self':
        m = [f for f in cls.body if isinstance(f, ast.FunctionDef) and f.name == expr.attr]
        if len(m) != 1:
            return '.unknown'
        static = any(ast.unparse(d) == 'staticmethod' for d in m[0].decorator_list)
        ps = [a.arg for a in m[0].args.args]
        if not static:
            if not ps or ps[0] != 'self':
                return '.unknown'
            ps = ps[1:]
        stmts = body_of(m[0])
    else:
        return '.unknown'
    if len(ps) != (2 if has_arg else 1):
        return '.unknown'
    dname = ps[0]
    arg = ps[1] if has_arg else None

    def go(ss):
        if not ss:
            return '.retNone'                       # falling off the end returns None
        s, rest = ss[0], ss[1:]
        if isinstance(s, ast.Expr) and canon(s.value) == '%s.addErrback(lambda v0: None)' % dname:
            return '(.swallow %s)' % go(rest)
        if isinstance(s, ast.Return) and not rest:
            v = s.value
            if v is None or (isinstance(v, ast.Constant) and v.value is None):
                return '.retNone'
            if isinstance(v, ast.Call) and ast.unparse(v.func) == 'Mismatch':
                return '.retMismatch'
            if arg and ast.unparse(v) == 'self._matcher.match(%s)' % arg:
                return '.retInner'
        return '.unknown'
    return go(stmts)


def matcher(tree, cls_name):
    cls = find(tree, cls_name)
    m = body_of(find(cls, 'match'))
    bad = '{ direct := false, onSuccess := .unknown, onFailure := .unknown, onNoResult := .unknown }'
    fn = find(cls, 'match')
    ps = [a.arg for a in fn.args.args]
    if len(ps) != 2 or len(m) != 1 or not isinstance(m[0], ast.Return) or not isinstance(m[0].value, ast.Call):
        return bad
    c = m[0].value
    if ast.unparse(c.func) != 'on_deferred_result':
        return bad
    order = ['deferred', 'on_success', 'on_failure', 'on_no_result']
    given = dict(zip(order, c.args))
    for kw in c.keywords:
        if kw.arg in given or kw.arg not in order:
            return bad
        given[kw.arg] = kw.value
    if set(given) != set(order) or ast.unparse(given['deferred']) != ps[1]:
        return bad
    return '{ direct := true, onSuccess := %s, onFailure := %s, onNoResult := %s }' % (
        handler(cls, given['on_success'], True), handler(cls, given['on_failure'], True), handler(cls, given['on_no_result'], False))


# ---------------------------------------------------------------- extract_result
def extract_result(fn):
    ps = [a.arg for a in fn.args.args]
    if len(ps) != 1:
        return '{ installsAppendPair := false, arms := [] }'
    dname = ps[0]
    lists, installs, S, F, rest = [], False, None, None, []
    for s in body_of(fn):
        n = empty_list_binding(s)
        if n and not rest:
            lists.append(n)
            continue
        if isinstance(s, ast.Expr) and isinstance(s.value, ast.Call) and ast.unparse(s.value.func) == dname + '.addCallbacks' and not rest and not installs:
            c = s.value
            pair = list(c.args) if len(c.args) == 2 and not c.keywords else \
                [[kw.value for kw in c.keywords if kw.arg == n][0] for n in ('callback', 'errback')] \
                if not c.args and sorted(kw.arg for kw in c.keywords) == ['callback', 'errback'] else []
            names = [ast.unparse(a)[:-len('.append')] for a in pair if ast.unparse(a).endswith('.append')]
            if len(pair) == 2 and len(names) == 2 and names[0] != names[1] and all(n in lists for n in names):
                S, F = names
                installs = True
                continue
        rest.append(s)

    def arm(body):
        b = [x for x in body if not (isinstance(x, ast.Expr) and isinstance(x.value, ast.Constant))]
        # statements after an unconditional raise (`raise …`, `Failure.raiseException()`) are dead code
        for k, x in enumerate(b):
            if isinstance(x, ast.Raise) or ast.unparse(x) == '%s[0].raiseException()' % F:
                b = b[:k + 1]
                break
        if len(b) == 1:
            u = ast.unparse(b[0])
            if u == '%s[0].raiseException()' % F:
                return '.raiseFailure'
            if u == 'return %s[0]' % S:
                return '.returnSuccess'
            if u == 'raise DeferredNotFired(%s)' % dname:
                return '.raiseNotFired'
        return '.unknown'
    arms = arms_of(rest, lambda t: guard(t, S, F, dname), arm, '.returnNone') if installs else []
    return '{ installsAppendPair := %s,\n      arms := [%s] }' % ('true' if installs else 'false', ', '.join('(%s, %s)' % a for a in arms))


# ---------------------------------------------------------------- _run_user
def run_user_sig(fn):
    """the signature `(self, function, /, *args, **kwargs)`: the two named parameters positional-only (no keyword name of a cleanup can
    collide with them - seed C20-g dropped the `/`), nothing else named, `*args` and `**kwargs` present"""
    a = fn.args
    named_pos_only = len(a.posonlyargs) == 2 and not a.args and not a.kwonlyargs and not a.defaults
    return '{ namedPositionalOnly := %s, varArgs := %s, varKwargs := %s }' % tuple(
        'true' if x else 'false' for x in (named_pos_only, a.vararg is not None, a.kwarg is not None))


def run_user(fn):
    ps = [a.arg for a in fn.args.posonlyargs + fn.args.args]      # (whether `function` is positional-only is run_user_sig's business)
    kw = fn.args.kwarg.arg if fn.args.kwarg else None
    steps = []
    d = res = None
    ok = len(ps) == 2 and fn.args.vararg and kw
    # the call of the user's function: as a thunk - `defer.maybeDeferred(lambda: function(*args, **kwargs))`, nothing of the user's reaches
    # maybeDeferred's own parameters - or handed over - `defer.maybeDeferred(function, *args, **kwargs)`, where a keyword named like
    # maybeDeferred's first parameter (`f`) collides
    thunk = ok and 'defer.maybeDeferred(lambda: %s(*%s, **%s))' % (ps[1], fn.args.vararg.arg, kw)
    direct = ok and 'defer.maybeDeferred(%s, *%s, **%s)' % (ps[1], fn.args.vararg.arg, kw)
    for s in body_of(fn):
        u = ast.unparse(s)
        if isinstance(s, ast.Assign) and len(s.targets) == 1 and isinstance(s.targets[0], ast.Name):
            name, v = s.targets[0].id, ast.unparse(s.value)
            if ok and d is None and v in (thunk, direct):
                d = name
                steps.append('(.maybeDeferred %s)' % ('true' if v == thunk else 'false'))
                continue
            # `addErrback` returns the Deferred it is called on: the chained spelling is the same two steps
            if ok and d is None and v in (thunk + '.addErrback(self._got_user_failure)', direct + '.addErrback(self._got_user_failure)'):
                d = name
                steps += ['(.maybeDeferred %s)' % ('true' if v.startswith(thunk) else 'false'), '.addErrbackGotUserFailure']
                continue
            if d and v == 'extract_result(%s)' % d and res is None:
                res = name
                continue
        if d and u == '%s.addErrback(self._got_user_failure)' % d and res is None:
            steps.append('.addErrbackGotUserFailure')
            continue
        if d and (u == 'return extract_result(%s)' % d and res is None or res and u == 'return %s' % res):
            steps.append('.returnExtracted')
            continue
        steps.append('.unknown')
    return '[%s]' % ', '.join(steps)


# ---------------------------------------------------------------- _got_user_failure
def got_user_failure(tree):
    cls = find(tree, 'SynchronousDeferredRunTest')
    fn = None
    for c in cls.body:
        if isinstance(c, ast.FunctionDef) and c.name == '_got_user_failure':
            fn = c
    if fn is None:
        if [ast.unparse(b) for b in cls.bases] != ['_DeferredRunTest']:
            return '[.unknown]'
        try:
            fn = find(tree, '_DeferredRunTest._got_user_failure')
        except ValueError:
            return '[.unknown]'
    ps = [a.arg for a in fn.args.posonlyargs + fn.args.args]
    if len(ps) != 3 or fn.args.vararg or fn.args.kwarg or fn.args.kwonlyargs:
        return '[.unknown]'
    f, lab = ps[1], ps[2]
    want = ast.unparse(ast.parse('return self._got_user_exception((%s.type, %s.value, %s.getTracebackObject()), tb_label=%s)' % (f, f, f, lab)).body[0])
    body = body_of(fn)
    # `exc_info = (…); return self._got_user_exception(exc_info, …)`: a local bound and used once in the very next statement is that expression
    if len(body) == 2 and isinstance(body[0], ast.Assign) and len(body[0].targets) == 1 and isinstance(body[0].targets[0], ast.Name) \
            and isinstance(body[1], ast.Return):
        name, val = body[0].targets[0].id, body[0].value
        uses = [n for n in ast.walk(body[1]) if isinstance(n, ast.Name) and n.id == name]
        if len(uses) == 1 and name not in ps:
            class Sub(ast.NodeTransformer):
                def visit_Name(self, n):
                    return val if n.id == name else n
            body = [ast.fix_missing_locations(Sub().visit(body[1]))]
    steps = ['.reportUserException' if ast.unparse(st) == want else '.unknown' for st in body]
    return '[%s]' % ', '.join(steps)


def generate(repo):
    base = os.path.join(repo, 'testtools', 'twistedsupport')
    d = ast.parse(open(os.path.join(base, '_deferred.py')).read())
    m = ast.parse(open(os.path.join(base, '_matchers.py')).read())
    r = ast.parse(open(os.path.join(base, '_runtest.py')).read())
    return '''import TTV.Model.DeferredSkel
/-! GENERATED by harness/pydeferred2lean.py from testtools/twistedsupport/{_deferred,_matchers,_runtest}.py on every run - do not edit.
The decision logic of `on_deferred_result`, of the three matchers' `match` with the handlers they pass, of `extract_result`
and of `SynchronousDeferredRunTest._run_user` with the errback `_got_user_failure` it installs, as data. -/
namespace TTV.Generated.DeferredSrc
open TTV.DeferredSkel

def onDeferredResult : OdrSrc :=
    %s

def noResult : MatcherSrc :=
    %s

def succeeded : MatcherSrc :=
    %s

def failed : MatcherSrc :=
    %s

def extractResult : ExtractSrc :=
    %s

def runUserSig : RunUserSig :=
    %s

def runUser : List RunUserStep := %s

def gotUserFailure : List GotFailureStep := %s

end TTV.Generated.DeferredSrc
''' % (on_deferred_result(find(d, 'on_deferred_result')), matcher(m, '_NoResult'), matcher(m, '_Succeeded'), matcher(m, '_Failed'),
       extract_result(find(d, 'extract_result')), run_user_sig(find(r, 'SynchronousDeferredRunTest._run_user')),
       run_user(find(r, 'SynchronousDeferredRunTest._run_user')), got_user_failure(r))


if __name__ == '__main__':
    import sys
    print(generate(sys.argv[1] if len(sys.argv) > 1 else '/repo'))
