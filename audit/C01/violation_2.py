"""C01 violation 2: an exception (or skip reason, or expectThat mismatch) whose text contains a
lone surrogate (what os.fsdecode / surrogateescape produce for undecodable file names) yields NO
outcome; run() raises UnicodeEncodeError instead.  When the exception is a SystemExit /
KeyboardInterrupt, it is neither reported as an error nor propagated: UnicodeEncodeError comes out.
"""
import os
import sys
import unittest
from testtools import TestCase
from testtools.matchers import Equals
from violation_common import flavours, bracket_ok, run

NAME = os.fsdecode(b"report-\xff.txt")      # 'report-\udcff.txt'


def behave(case, kind):
    if kind == "failure":
        case.fail("unexpected file " + NAME)
    if kind == "error":
        raise RuntimeError("cannot parse " + NAME)
    if kind == "skip":
        case.skipTest("no fixture for " + NAME)
    if kind == "expectThat":
        case.expectThat(NAME, Equals("report.txt"), message="while checking " + NAME)
    if kind == "SystemExit":
        sys.exit("fatal: cannot open " + NAME)
    if kind == "KeyboardInterrupt":
        raise KeyboardInterrupt(NAME)


def make(stage, kind):
    class T(TestCase):
        def setUp(self):
            super().setUp()
            self.addCleanup(self._cleanup)
            if stage == "setUp":
                behave(self, kind)
        def _cleanup(self):
            if stage == "cleanup":
                behave(self, kind)
        def test(self):
            if stage == "test":
                behave(self, kind)
        def tearDown(self):
            super().tearDown()
            if stage == "tearDown":
                behave(self, kind)
    return T("test")


print("DEMANDED: startTest, exactly one outcome, stopTest; run() returns, except that a")
print("          SystemExit/KeyboardInterrupt is reported as an error and then propagates itself.")
bad = 0
for kind in ("failure", "error", "skip", "expectThat", "SystemExit", "KeyboardInterrupt"):
    for stage in ("setUp", "test", "tearDown", "cleanup"):
        for name, factory in flavours():
            events, exc = run(make(stage, kind), factory)
            if kind in ("SystemExit", "KeyboardInterrupt"):
                exc_ok = type(exc).__name__ == kind
            else:
                exc_ok = exc is None
            ok = bracket_ok(name, events) and exc_ok
            if not ok:
                bad += 1
                if stage == "test":   # keep the output short: one stage in full
                    print("%-17s %-5s %-40s events=%r raised=%s -> VIOLATION" % (
                        kind, stage, name, events, type(exc).__name__ if exc else None))
print("violating (kind, stage, flavour) combinations:", bad, "of", 6 * 4 * 6)
sys.exit(1 if bad else 0)
