"""C01 violation 1: a skip whose reason is not a str yields NO outcome and run() raises TypeError.

Input: any stage (setUp / test method / tearDown / cleanup) does  self.skipTest(e)  where e is
an exception object (the very common ``except ImportError as e: self.skipTest(e)`` idiom), or
raises unittest.SkipTest(42) / SkipTest(None) / SkipTest(b"...").
"""
import sys
from testtools import TestCase
from violation_common import flavours, bracket_ok, run


def make(stage):
    class T(TestCase):
        def setUp(self):
            super().setUp()
            self.addCleanup(self._cleanup)
            if stage == "setUp":
                self._skip()
        def _skip(self):
            try:
                import no_such_module_xyz  # noqa
            except ImportError as e:
                self.skipTest(e)          # reason is an ImportError instance, not a str
        def _cleanup(self):
            if stage == "cleanup":
                self._skip()
        def test(self):
            if stage == "test":
                self._skip()
        def tearDown(self):
            super().tearDown()
            if stage == "tearDown":
                self._skip()
    return T("test")


print("DEMANDED: startTest, exactly one outcome (addSkip here), stopTest; run() returns.")
bad = 0
for stage in ("setUp", "test", "tearDown", "cleanup"):
    for name, factory in flavours():
        events, exc = run(make(stage), factory)
        ok = bracket_ok(name, events) and exc is None
        if not ok:
            bad += 1
        print("%-8s %-40s events=%r raised=%r -> %s" % (
            stage, name, events, exc, "ok" if ok else "VIOLATION"))
print("violations:", bad)
sys.exit(1 if bad else 0)
