"""Shared helpers for the violation_N.py scripts (result flavours + event extraction)."""
from testtools import TestResult
from testtools.testresult.doubles import (
    Python26TestResult, Python27TestResult, ExtendedTestResult,
    TwistedTestResult, StreamResult as StreamDouble)
from testtools.testresult.real import ExtendedToStreamDecorator

OUTCOMES = {"addSuccess", "addFailure", "addError", "addSkip",
            "addExpectedFailure", "addUnexpectedSuccess"}


class LoggingTestResult(TestResult):
    """testtools.TestResult that records the order of calls (after the real call returned)."""
    def __init__(self, **kw):
        super().__init__(**kw)
        self._events = []
    def startTest(self, t):
        self._events.append(("startTest", t)); super().startTest(t)
    def stopTest(self, t):
        self._events.append(("stopTest", t)); super().stopTest(t)

def _mk(n):
    def m(self, test, *a, **k):
        r = getattr(TestResult, n)(self, test, *a, **k)
        self._events.append((n, test))
        return r
    return m
for _n in OUTCOMES:
    setattr(LoggingTestResult, _n, _mk(_n))


def flavours():
    """name -> factory returning (result, events()) ; events are names only."""
    def dbl(cls):
        def f():
            r = cls()
            return r, lambda: [e[0] for e in r._events if e[0] in OUTCOMES or e[0] in ("startTest", "stopTest")]
        return f
    def tt():
        r = LoggingTestResult()
        return r, lambda: [e[0] for e in r._events]
    def stream():
        s = StreamDouble()
        r = ExtendedToStreamDecorator(s)
        # startTest -> status 'inprogress'; an outcome -> a status with a final test_status
        return r, lambda: ["status:" + e.test_status for e in s._events
                           if e[0] == "status" and e.test_status is not None]
    return [("2.6-style", dbl(Python26TestResult)), ("2.7-style", dbl(Python27TestResult)),
            ("extended", dbl(ExtendedTestResult)), ("Twisted-style", dbl(TwistedTestResult)),
            ("testtools.TestResult", tt), ("StreamResult/ExtendedToStreamDecorator", stream)]


def bracket_ok(name, events):
    if name.startswith("StreamResult"):
        return (len(events) == 2 and events[0] == "status:inprogress"
                and events[1] != "status:inprogress")
    return (len(events) == 3 and events[0] == "startTest"
            and events[1] in OUTCOMES and events[2] == "stopTest")


def run(case, factory):
    result, events = factory()
    exc = None
    try:
        case.run(result)
    except BaseException as e:  # noqa
        exc = e
    return events(), exc
