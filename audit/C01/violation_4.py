"""C01 violation 4: an exception object that traceback.TracebackException cannot format escapes
from RunTest._run_user (it is raised *inside* the except-clause, from
_got_user_exception -> TestCase.onException -> _report_traceback -> TracebackContent.__init__).

  * raised by setUp: NO outcome at all, the cleanups are not run, run() raises.
  * raised by the test method / tearDown / a cleanup on its own: the test is reported as a
    SUCCESS (failed stays False in _run_core) and run() raises.
  * raised by tearDown after the test method failed normally: NO outcome, run() raises
    (the recorded AssertionError is never reported).

Input: SyntaxError("bad input", ("conf.ini", 1, 5, b"x = (\\n")) - a SyntaxError whose text field is the offending line as bytes, not str
(an ordinary Exception subclass instance built with its public constructor).
"""
import sys
from testtools import TestCase
from violation_common import flavours, bracket_ok, run, OUTCOMES


def unformattable():
    return SyntaxError("bad input", ("conf.ini", 1, 5, b"x = (\n"))


def make(stage, test_fails=False):
    log = []
    class T(TestCase):
        def setUp(self):
            super().setUp()
            self.addCleanup(log.append, "cleanup ran")
            if stage == "setUp":
                raise unformattable()
        def test(self):
            if stage == "test":
                raise unformattable()
            if test_fails:
                self.fail("ordinary failure")
        def tearDown(self):
            super().tearDown()
            if stage == "tearDown":
                raise unformattable()
    return T("test"), log


print("DEMANDED: startTest, exactly one outcome (addError), stopTest; cleanups run; run() returns.")
bad = 0
for label, stage, also in [("setUp raises it", "setUp", False),
                           ("test raises it", "test", False),
                           ("test fails normally, tearDown raises it", "tearDown", True)]:
    for name, factory in flavours():
        case, log = make(stage, also)
        events, exc = run(case, factory)
        outcome = [e for e in events if e in OUTCOMES or (e.startswith("status:") and e != "status:inprogress")]
        ok = (bracket_ok(name, events) and exc is None
              and outcome not in (["addSuccess"], ["status:success"]) and log == ["cleanup ran"])
        if not ok:
            bad += 1
        print("%-46s %-40s events=%r cleanups=%r raised=%r -> %s" % (
            label, name, events, log, exc, "ok" if ok else "VIOLATION"))
print("violations:", bad)
sys.exit(1 if bad else 0)
