"""C01 violation 3: skip *decorators* / skip markers whose reason is None (or, for the stream
flavour, not a str) yield NO outcome; run() raises ValueError / AttributeError.

RunTest._run_core reads the reason with  getattr(..., "__unittest_skip_why__", None)  and passes
reason=None to ExtendedToOriginalDecorator.addSkip, whose _check_args rejects "neither reason nor
details".  So the default the code itself supplies is the one value that cannot be reported.
"""
import sys
import unittest
import testtools
from testtools import TestCase
from violation_common import flavours, bracket_ok, run


def case_skip_none():
    class T(TestCase):
        @testtools.skip(None)
        def test(self):
            pass
    return T("test")

def case_skipIf_none():
    class T(TestCase):
        @testtools.skipIf(True, None)
        def test(self):
            pass
    return T("test")

def case_unittest_skip_none():
    class T(TestCase):
        @unittest.skip(None)
        def test(self):
            pass
    return T("test")

def case_marker_without_why():
    # the bare unittest skip protocol: only the marker attribute, no reason attribute
    class T(TestCase):
        __unittest_skip__ = True
        def test(self):
            pass
    return T("test")

def case_skip_nonstr():
    class T(TestCase):
        @testtools.skip(ImportError("no module named frob"))
        def test(self):
            pass
    return T("test")


print("DEMANDED: startTest, exactly one outcome (a skip), stopTest; run() returns.")
bad = 0
for label, mk in [("@testtools.skip(None)", case_skip_none),
                  ("@testtools.skipIf(True, None)", case_skipIf_none),
                  ("@unittest.skip(None)", case_unittest_skip_none),
                  ("__unittest_skip__ without __unittest_skip_why__", case_marker_without_why),
                  ("@testtools.skip(<ImportError instance>)", case_skip_nonstr)]:
    for name, factory in flavours():
        events, exc = run(mk(), factory)
        ok = bracket_ok(name, events) and exc is None
        if not ok:
            bad += 1
            print("%-48s %-40s events=%r raised=%r -> VIOLATION" % (label, name, events, exc))
print("violations:", bad)
sys.exit(1 if bad else 0)
