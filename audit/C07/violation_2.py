"""C07 violation 2: the mismatch returned by MatchesDict / ContainsDict /
ContainedByDict (and MatchesAllDict) describes itself only ONCE.  The second
describe() - and therefore the second str() of the MismatchError that
assertThat raised - returns the empty string, because LabelledMismatches hands
MismatchesAll a generator, which the first describe() exhausts.

Property demands: every mismatch has a describe() returning text [describing
the mismatch]; assertThat reports the mismatch faithfully (str(MismatchError)).
"""
import sys
from testtools import TestCase
from testtools.matchers import (
    ContainedByDict, ContainsDict, Equals, MatchesDict, MismatchError)

failures = 0
for matcher, matchee in [
    (MatchesDict({"a": Equals(1)}), {"a": 2}),
    (ContainsDict({"a": Equals(1)}), {}),
    (ContainedByDict({"a": Equals(1)}), {"b": "\xe9\n"}),
]:
    mismatch = matcher.match(matchee)
    first, second = mismatch.describe(), mismatch.describe()
    print("%s.match(%r)" % (matcher, matchee))
    print("   1st describe(): %r" % first)
    print("   2nd describe(): %r" % second)
    if first != second:
        failures += 1
        print("   VIOLATION: same mismatch object, different description")


class T(TestCase):
    def test(self):
        for verbose in (False, True):
            try:
                self.assertThat({"a": 2}, MatchesDict({"a": Equals(1)}), verbose=verbose)
            except MismatchError as e:
                self.texts = (str(e), str(e))
                print("verbose=%s str(MismatchError) #1: %r" % (verbose, self.texts[0]))
                print("verbose=%s str(MismatchError) #2: %r" % (verbose, self.texts[1]))
                if self.texts[0] != self.texts[1]:
                    global failures
                    failures += 1
                    print("   VIOLATION: the difference has vanished from the error")


T("test").run()
sys.exit(1 if failures else 0)
