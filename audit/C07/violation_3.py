"""C07 violation 3: the failure that expectThat schedules is tied to the
TestCase attribute ``force_failure``, which is (a) never cleared by _reset()
and (b) only looked at on one path through RunTest._run_core.

(a) A test whose expectation mismatched in run 1 FAILS in run 2 although no
    expectThat (indeed no matcher at all) mismatched in run 2.
(b) A failed expectThat in setUp followed by skipTest() in setUp leaves the
    test reported as a *skip*: the test has finished and has not failed.

Property demands: "expectThat never raises but makes the test fail once it has
finished" - i.e. the test fails exactly when an expectation mismatched, just as
assertThat raises exactly when match() returns a mismatch.
"""
import sys
from testtools import TestCase
from testtools.matchers import Equals
from testtools.testresult.doubles import ExtendedTestResult

failures = 0


def outcomes(result):
    return [e[0] for e in result._events if e[0].startswith("add")]


# (a) ---------------------------------------------------------------
observed = iter([1, 2])


class A(TestCase):
    def test(self):
        self.expectThat(next(observed), Equals(2))


case = A("test")
r1, r2 = ExtendedTestResult(), ExtendedTestResult()
case.run(r1)   # 1 vs Equals(2): mismatch -> must fail
case.run(r2)   # 2 vs Equals(2): matches  -> must succeed
print("(a) run 1 (expectation mismatched): demanded ['addFailure'], got", outcomes(r1))
print("(a) run 2 (expectation matched):    demanded ['addSuccess'], got", outcomes(r2))
if outcomes(r2) != ["addSuccess"]:
    failures += 1
    details = [e for e in r2._events if e[0] == "addFailure"][0][2]
    print("    VIOLATION: run 2 failed with details", sorted(details),
          "->", details["traceback"].as_text().strip().splitlines()[-1])

# (b) ---------------------------------------------------------------


class B(TestCase):
    def setUp(self):
        super().setUp()
        self.expectThat(1, Equals(2), "environment looks wrong")
        self.skipTest("optional dependency missing")

    def test(self):
        pass


r = ExtendedTestResult()
B("test").run(r)
print("(b) mismatching expectThat then skipTest in setUp: demanded a failure, got", outcomes(r))
if outcomes(r) != ["addFailure"]:
    failures += 1
    print("    VIOLATION: test finished without failing; wasSuccessful() =", r.wasSuccessful())

# control: the same two statements in the test method do fail the test


class C(TestCase):
    def test(self):
        self.expectThat(1, Equals(2), "environment looks wrong")
        self.skipTest("optional dependency missing")


r = ExtendedTestResult()
C("test").run(r)
print("    (control: same statements in the test method ->", outcomes(r), ")")
sys.exit(1 if failures else 0)
