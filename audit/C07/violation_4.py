"""C07 violation 4: IsInstance built from a PEP 604 union (int | str) - a
classinfo that isinstance() accepts and IsInstance ("Adapts isinstance() to use
as a matcher") happily matches against - has no working str(), and the
mismatch it returns has no working describe(): both read ``.__name__`` which a
types.UnionType does not have (observed on Python 3.12.1).

Property demands: every stock matcher has a str(); every mismatch it returns
has a describe() returning text; str(MismatchError) never raises; assertThat
raises MismatchError.
"""
import sys
from testtools import TestCase
from testtools.matchers import IsInstance, MismatchError
from testtools.testresult.doubles import ExtendedTestResult

failures = []


def check(label, fn):
    try:
        print("ok        %-50s -> %r" % (label, fn()))
    except BaseException as e:
        print("VIOLATION %-50s raised %s: %s" % (label, type(e).__name__, e))
        failures.append(label)


matcher = IsInstance(int | str)
print("IsInstance(int | str).match(3)   ->", matcher.match(3), "(matches, as isinstance does)")
mismatch = matcher.match(1.5)
print("IsInstance(int | str).match(1.5) ->", type(mismatch).__name__)
check("str(IsInstance(int | str))", lambda: str(matcher))
check("mismatch.describe()", mismatch.describe)
check("str(MismatchError(verbose=False))", lambda: str(MismatchError(1.5, matcher, mismatch, False)))
check("str(MismatchError(verbose=True))", lambda: str(MismatchError(1.5, matcher, mismatch, True)))
check("mixed: IsInstance(bytes, int | None).match('x').describe()",
      lambda: IsInstance(bytes, int | None).match("x").describe())


class T(TestCase):
    def test_expect(self):
        self.expectThat(1.5, IsInstance(int | str))

    def test_assertIsInstance(self):
        self.assertIsInstance(1.5, int | str)


for name in ("test_expect", "test_assertIsInstance"):
    r = ExtendedTestResult()
    T(name).run(r)
    outcome = [e[0] for e in r._events if e[0].startswith("add")]
    ok = outcome == ["addFailure"]
    last = ""
    for e in r._events:
        if e[0] in ("addError", "addFailure"):
            last = e[2]["traceback"].as_text().strip().splitlines()[-1]
    ok = ok and "AttributeError" not in last and "str() failed" not in last
    print("%s %s: demanded a reported failure describing the mismatch; got %r / %s"
          % ("ok       " if ok else "VIOLATION", name, outcome, last))
    if not ok:
        failures.append(name)
sys.exit(1 if failures else 0)
