"""C07 violation 1: a stock matcher returns a Mismatch whose describe() raises
NotImplementedError, because Mismatch.__init__ tests the description for
truthiness and an empty description is dropped.

Property demands: every mismatch a stock matcher returns has a describe()
returning text; str(MismatchError), verbose or not, never raises; expectThat
never raises.
"""
import sys
from testtools import TestCase
from testtools.matchers import (
    Annotate, MatchesPredicate, MatchesPredicateWithParams, MismatchError)
from testtools.testresult.doubles import ExtendedTestResult

failures = []


def check(label, fn):
    try:
        result = fn()
    except BaseException as e:
        print("VIOLATION %-55s raised %s" % (label, type(e).__name__))
        failures.append(label)
    else:
        print("ok        %-55s -> %r" % (label, result))


# The documented form of message: "needs to contain exactly one thing like '%s'".
is_identifier = MatchesPredicate(str.isidentifier, "%s")
matchee = ""  # a legitimate, mismatching str value: ''.isidentifier() is False
mismatch = is_identifier.match(matchee)
print("match('') returned", mismatch)
assert mismatch is not None

check("MatchesPredicate(.., '%s').match('').describe()", mismatch.describe)
check("str(MismatchError(verbose=False))",
      lambda: str(MismatchError(matchee, is_identifier, mismatch, False)))
check("str(MismatchError(verbose=True))",
      lambda: str(MismatchError(matchee, is_identifier, mismatch, True)))
check("Annotate('msg', m).match('').describe()",
      lambda: Annotate("msg", is_identifier).match(matchee).describe())

Shorter = MatchesPredicateWithParams(lambda x, n: len(x) > n, "{0}")
check("MatchesPredicateWithParams(.., '{0}')(3).match('').describe()",
      lambda: Shorter(3).match("").describe())


class T(TestCase):
    def test_expect(self):
        self.expectThat(matchee, is_identifier)
        self.reached_end = True

    def test_assert(self):
        try:
            self.assertThat(matchee, is_identifier)
        except MismatchError as e:
            self.error_text = str(e)


for name in ("test_expect", "test_assert"):
    t = T(name)
    r = ExtendedTestResult()
    t.run(r)
    outcome = [e[0] for e in r._events if e[0].startswith("add")]
    if name == "test_expect":
        good = getattr(t, "reached_end", False) and outcome == ["addFailure"]
        print("%s expectThat: demanded no raise + addFailure; got reached_end=%r outcome=%r"
              % ("ok       " if good else "VIOLATION", getattr(t, "reached_end", False), outcome))
    else:
        good = outcome == ["addSuccess"]
        print("%s str() of the MismatchError raised by assertThat: outcome=%r"
              % ("ok       " if good else "VIOLATION", outcome))
    if not good:
        failures.append(name)
        for e in r._events:
            if e[0] in ("addError", "addFailure"):
                print("    " + e[2]["traceback"].as_text().strip().splitlines()[-1])

sys.exit(1 if failures else 0)
