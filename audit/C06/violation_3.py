"""C06 / Contains: for an int needle and a bytes value (both leaf domains) the
predicate 'needle in matchee' is false, so match() must return a Mismatch (as
it does for Contains(1).match(2), Contains(1).match('a'), Contains(1.5).match(b'a')).
For ints outside range(256) it raises ValueError instead, and so does every
combinator above it (Not, MatchesAny, ContainsAll...)."""
import sys
from testtools.matchers import Contains, ContainsAll, MatchesAny, Not, Always

fail = 0
def run(label, thunk, want_match):
    global fail
    try:
        got = thunk()
    except Exception as e:
        print("%-50s demanded: %-8s happened: raised %s: %s   <-- VIOLATION" % (
            label, "match" if want_match else "mismatch", type(e).__name__, e))
        fail = 1
        return
    ok = (got is None) == want_match
    print("%-50s demanded: %-8s happened: %s%s" % (
        label, "match" if want_match else "mismatch",
        "match" if got is None else "mismatch (%s)" % got.describe(),
        "" if ok else "   <-- VIOLATION"))
    if not ok:
        fail = 1

run("Contains(97).match(b'a')", lambda: Contains(97).match(b"a"), True)
run("Contains(98).match(b'a')", lambda: Contains(98).match(b"a"), False)
run("Contains(1.5).match(b'a')   (TypeError inside)", lambda: Contains(1.5).match(b"a"), False)
run("Contains(1).match(2)        (TypeError inside)", lambda: Contains(1).match(2), False)
run("Contains(256).match(b'a')", lambda: Contains(256).match(b"a"), False)
run("Contains(-1).match(b'')", lambda: Contains(-1).match(b""), False)
run("Not(Contains(256)).match(b'a')", lambda: Not(Contains(256)).match(b"a"), True)
run("MatchesAny(Contains(256), Always()).match(b'a')",
    lambda: MatchesAny(Contains(256), Always()).match(b"a"), True)
run("ContainsAll([97, 256]).match(b'a')", lambda: ContainsAll([97, 256]).match(b"a"), False)
sys.exit(fail)
