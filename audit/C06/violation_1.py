"""C06 / MatchesSetwise: 'the existence of a one-to-one assignment of values to
matchers' is violated when the same matcher object occurs more than once among
the matchers: match() silently drops the repeated occurrences."""
import sys
from testtools.matchers import Always, Equals, MatchesListwise, MatchesSetwise

fail = 0

def verdict(mismatch):
    return "match" if mismatch is None else "mismatch (%s)" % mismatch.describe()

def check(label, got, want_match):
    global fail
    ok = (got is None) == want_match
    print("%-52s demanded: %-8s happened: %s%s" % (
        label, "match" if want_match else "mismatch", verdict(got),
        "" if ok else "   <-- VIOLATION"))
    if not ok:
        fail = 1

one = Equals(1)
# Two matchers, two values, the pairing value[0]->matcher[0], value[1]->matcher[1]
# is one-to-one and every pair matches: the property demands a match.
check("MatchesSetwise(one, one).match([1, 1])", MatchesSetwise(one, one).match([1, 1]), True)
# control: same expression built from two separate objects
check("MatchesSetwise(Equals(1), Equals(1)).match([1, 1])",
      MatchesSetwise(Equals(1), Equals(1)).match([1, 1]), True)
# control: the positional combinator accepts the shared object
check("MatchesListwise([one, one]).match([1, 1])", MatchesListwise([one, one]).match([1, 1]), True)
# Two matchers, ONE value: no one-to-one assignment exists (a matcher is left
# over): the property demands a mismatch.
check("MatchesSetwise(one, one).match([1])", MatchesSetwise(one, one).match([1]), False)
check("MatchesSetwise(Equals(1), Equals(1)).match([1])",
      MatchesSetwise(Equals(1), Equals(1)).match([1]), False)
anything = Always()
check("MatchesSetwise(anything x3).match([1, 2, 3])",
      MatchesSetwise(anything, anything, anything).match([1, 2, 3]), True)
check("MatchesSetwise(anything x3).match([1])",
      MatchesSetwise(anything, anything, anything).match([1]), False)
check("MatchesSetwise(*[Equals(1)] * 2).match([1, 1])",
      MatchesSetwise(*[Equals(1)] * 2).match([1, 1]), True)
sys.exit(fail)
