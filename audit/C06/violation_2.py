"""C06 / FileContains: 'Matches if the given file has the specified contents'.
The file is opened in text mode with universal newlines, so a file whose
contents contain '\\r\\n' or '\\r' is compared after translation: the matcher
rejects the file's real contents and accepts contents the file does not have."""
import os, sys, tempfile
from testtools.matchers import Equals, FileContains

fail = 0
d = tempfile.mkdtemp()
path = os.path.join(d, "crlf.txt")
contents = "a\r\nb\rc"
with open(path, "w", newline="") as f:   # written verbatim
    f.write(contents)
with open(path, newline="") as f:
    on_disk = f.read()
with open(path, "rb") as f:
    raw = f.read()
print("file contents (verbatim read): %r   raw bytes: %r" % (on_disk, raw))
assert on_disk == contents and raw == contents.encode("ascii")

def check(label, got, want_match):
    global fail
    ok = (got is None) == want_match
    print("%-45s demanded: %-8s happened: %s%s" % (
        label, "match" if want_match else "mismatch",
        "match" if got is None else "mismatch (%s)" % got.describe(),
        "" if ok else "   <-- VIOLATION"))
    if not ok:
        fail = 1

check("FileContains(%r)" % contents, FileContains(contents).match(path), True)
check("FileContains(matcher=Equals(%r))" % contents,
      FileContains(matcher=Equals(contents)).match(path), True)
check("FileContains(%r)" % "a\nb\nc", FileContains("a\nb\nc").match(path), False)
sys.exit(fail)
