"""C12 violation 1: the block forwarded for a test does not carry "that test's tags"
when a single tags() call names the same tag in new_tags and gone_tags.

TestResult.tags(new, gone) is defined (TagContext.change_tags) as
    current = (current | new) - gone          -- i.e. "gone" wins.
ThreadsafeForwardingResult buffers tag changes with _merge_tags(), which drops a
tag that is in both sets from *both* buffered sets, so the removal is never
forwarded and the target sees the test with a tag it does not have.

Two threads, one test each, explicit times, one shared target, one semaphore.
Deterministic (no dependence on the schedule)."""
import datetime
import sys
import threading

from testtools import PlaceHolder, TestResult, ThreadsafeForwardingResult
from testtools.testresult.real import utc


def T(n):
    return datetime.datetime(2000, 1, 1, tzinfo=utc) + datetime.timedelta(seconds=n)


class Target(TestResult):
    """A plain testtools TestResult that remembers the tags current at each outcome."""

    def __init__(self):
        super().__init__()
        self.seen = {}
        self.log = []

    def tags(self, new, gone):
        self.log.append(("tags", set(new), set(gone)))
        super().tags(new, gone)

    def addSuccess(self, test, details=None):
        self.seen[test.id()] = self.current_tags
        self.log.append(("addSuccess", test.id()))
        super().addSuccess(test, details=details)


def report(result, name, global_tags, test_tags):
    """What one worker thread reports: run-level tags, then one test."""
    result.tags(*global_tags)
    test = PlaceHolder(name)
    result.time(T(1))
    result.startTest(test)
    result.tags(*test_tags)
    result.time(T(2))
    result.addSuccess(test)
    result.stopTest(test)


# thread 0: run-level tag "slow"; inside the test one call: add {"db","slow"}, remove {"slow"}
# thread 1: ordinary
WORK = {
    "th0": ("t0", ({"slow"}, set()), ({"db", "slow"}, {"slow"})),
    "th1": ("t1", ({"net"}, set()), ({"x"}, set())),
}

# Reference: the same calls made directly on a TestResult (no forwarding).
expected = {}
for th, (name, g, t) in WORK.items():
    ref = Target()
    report(ref, name, g, t)
    expected.update(ref.seen)

target = Target()
sem = threading.Semaphore(1)
threads = [
    threading.Thread(
        target=report,
        args=(ThreadsafeForwardingResult(target, sem),) + WORK[th],
        name=th,
    )
    for th in WORK
]
for t in threads:
    t.start()
for t in threads:
    t.join()

print("property demands: the block for each test carries that test's tags")
print("expected tags at outcome (same calls on a plain TestResult):", expected)
print("tags the shared target saw at outcome:                      ", target.seen)
print("target log:")
for e in target.log:
    print("   ", e)
if target.seen != expected:
    print("VIOLATION: test t0 was delivered with tag 'slow', which the test removed")
    sys.exit(1)
print("no violation")
