"""C12 violation 2: "every outcome exactly once" fails for the fault "the target's
outcome call raises TypeError".

ThreadsafeForwardingResult forwards through ExtendedToOriginalDecorator, whose
outcome methods treat *any* TypeError coming out of
    decorated.addX(test, details=details)
as "old-style result that does not take details" and call decorated.addX a second
time (with a converted err / reason / no details).  So when the chosen faulting
call on the target is an outcome call and the exception is a TypeError, the target
receives the outcome twice inside the block, and the fault itself is swallowed.

Two threads, one test each, explicit times, outcomes carrying details; the fault
sequence is: "the first addError call on the target raises TypeError".
Deterministic (independent of the schedule)."""
import datetime
import sys
import threading

from testtools import PlaceHolder, ThreadsafeForwardingResult
from testtools.content import text_content
from testtools.testresult.real import utc


def T(n):
    return datetime.datetime(2000, 1, 1, tzinfo=utc) + datetime.timedelta(seconds=n)


class Target:
    """Fully 'extended' target (accepts details=); logs every call it receives."""

    def __init__(self, faulty_call, exc):
        self.log = []
        self.faulty_call = faulty_call
        self.exc = exc
        self.fired = False
        self.errors = []

    def _rec(self, name, *a):
        self.log.append((threading.current_thread().name, name) + a)
        if name == self.faulty_call and not self.fired:
            self.fired = True
            raise self.exc

    def startTest(self, test): self._rec("startTest", test.id())
    def stopTest(self, test): self._rec("stopTest", test.id())
    def time(self, t): self._rec("time", t.second)
    def tags(self, n, g): self._rec("tags", sorted(n), sorted(g))
    def addSuccess(self, test, details=None): self._rec("addSuccess", test.id())

    def addError(self, test, err=None, details=None):
        self.errors.append(test.id())   # the result records the error ...
        self._rec("addError", test.id())  # ... and then the chosen fault fires


def worker(result, name, outcome, raised):
    test = PlaceHolder(name)
    result.time(T(1))
    result.startTest(test)
    result.time(T(2))
    try:
        if outcome == "addError":
            result.addError(test, details={"traceback": text_content("boom")})
        else:
            result.addSuccess(test, details={})
    except BaseException as e:
        raised.append((name, e))
    finally:
        result.stopTest(test)


def run(exc):
    target = Target("addError", exc)
    sem = threading.Semaphore(1)
    raised = []
    threads = [
        threading.Thread(target=worker, name="th0",
                         args=(ThreadsafeForwardingResult(target, sem), "t0", "addError", raised)),
        threading.Thread(target=worker, name="th1",
                         args=(ThreadsafeForwardingResult(target, sem), "t1", "addSuccess", raised)),
    ]
    for t in threads: t.start()
    for t in threads: t.join()
    return target, raised, sem


status = 0
for exc in (RuntimeError("fault"), TypeError("fault")):
    target, raised, sem = run(exc)
    n = sum(1 for e in target.log if e[1] == "addError" and e[2] == "t0")
    print("fault: first target.addError raises %r" % (exc,))
    print("  property demands: outcome of t0 delivered exactly once (the faulting call), fault visible to the reporter")
    print("  target received for th0:", [e[1] for e in target.log if e[0] == "th0"])
    print("  addError(t0) calls received: %d   target.errors=%r   exception seen by reporter: %r"
          % (n, target.errors, raised))
    print("  semaphore free:", sem.acquire(False))
    if n != 1:
        print("  VIOLATION: outcome delivered %d times" % n)
        status = 1
sys.exit(status)
