"""C15 violation 3 (real reactor): a stop request (SIGINT) that arrives at a late
instant of a run is neither honoured nor discarded: it stays queued in the reactor
(reactor.threadCallQueue) when run() returns and hits a LATER run.

 (a) SIGINT at the same instant as the result: Spinner._fake_stop stays queued;
     the next run raises NoResultError although nothing interrupted it.
 (b) SIGINT between 'self._reactor.stop = real_stop' and 'self._restore_signals()'
     (the two lines of the finally block): Twisted's handler is still installed but
     reactor.stop is already the real one, so the REAL stop is queued; the next run
     shuts the reactor down for good, and the run after that raises
     ReactorNotRestartable and leaves its own timeout DelayedCall pending.

Property: "for all interrupt points (reactor stop requested at any instant of the
run)" ... "Whenever it returns or raises, the reactor ... holds no pending delayed
calls ..." and run() "returns the value ... its Deferred fired with".
"""
import os
import signal
import subprocess
import sys

if len(sys.argv) == 1:
    rc = 0
    for part in ("a", "b"):
        rc |= subprocess.call([sys.executable, __file__, part])
    sys.exit(1 if rc else 0)

from twisted.internet import defer, reactor
from twisted.internet.error import ReactorNotRestartable
from testtools.twistedsupport._spinner import Spinner, NoResultError

part = sys.argv[1]
spinner = Spinner(reactor)
failed = False


def plain():
    d = defer.Deferred()
    reactor.callLater(0.05, d.callback, "plain value")
    return d


def attempt(*a):
    try:
        return ("returned", spinner.run(*a))
    except BaseException as e:
        return ("raised", e)


if part == "a":
    def f1():
        os.kill(os.getpid(), signal.SIGINT)  # stop requested at the instant the result is produced
        return "value of run 1"

    print("(a) run 1:", attempt(1, f1))
    print("(a) pending in reactor after run 1 returned:", reactor.threadCallQueue)
    got = attempt(1, plain)
    print("(a) demanded: next, undisturbed run returns 'plain value'")
    print("(a) happened: it %s %r" % got)
    failed |= got != ("returned", "plain value")
else:
    fired = []

    def tracer(frame, event, arg):
        # deliver SIGINT exactly when line 329 (self._restore_signals()) is about
        # to execute, i.e. right after line 328 (self._reactor.stop = real_stop).
        if frame.f_code.co_name == "run" and frame.f_code.co_filename.endswith("_spinner.py"):
            def local(frame, event, arg):
                if event == "line" and frame.f_lineno == 329 and not fired:
                    fired.append(1)
                    signal.raise_signal(signal.SIGINT)
                return local
            return local

    sys.settrace(tracer)
    print("(b) run 1:", attempt(1, lambda: "value of run 1"))
    sys.settrace(None)
    assert fired
    print("(b) pending in reactor after run 1 returned:", reactor.threadCallQueue)
    got2 = attempt(1, plain)
    spinner.clear_junk()
    got3 = attempt(1, plain)
    print("(b) demanded: the next undisturbed runs return 'plain value'; reactor holds no delayed calls afterwards")
    print("(b) happened: run 2 %s %r" % got2)
    print("(b) happened: run 3 %s %r; delayed calls left in reactor: %r" % (got3 + (reactor.getDelayedCalls(),)))
    failed |= got2 != ("returned", "plain value") or got3 != ("returned", "plain value")
    failed |= bool(reactor.getDelayedCalls())
sys.exit(1 if failed else 0)
