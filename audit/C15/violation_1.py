"""C15 violation 1: a Deferred left over from an earlier run of the SAME Spinner
decides the result of a later run.

Property: "Spinner.run(timeout, f) returns the value f returned or its Deferred
fired with, raises the exception ... its Deferred failed with ..."
"""
import sys
from twisted.internet import defer
from twisted.internet.selectreactor import SelectReactor
from testtools.twistedsupport._spinner import Spinner, TimeoutError


class VirtualTimeReactor(SelectReactor):
    """Deterministic reactor: time only advances by jumping to the next delayed call."""

    def __init__(self):
        self._now = 0.0
        super().__init__()

    def seconds(self):
        return self._now

    def doIteration(self, t):
        if t:
            self._now += t
        super().doIteration(0)


failed = False
for flavour in ("fires", "fails"):
    reactor = VirtualTimeReactor()
    spinner = Spinner(reactor)

    # Run 1: f1 returns a Deferred that fires AFTER the timeout ("after" in the quantifier).
    d1 = defer.Deferred()
    try:
        spinner.run(1, lambda: d1)
    except TimeoutError:
        pass
    else:
        raise AssertionError("run 1 should have timed out")
    assert spinner.get_junk() == [], "no junk, so a second run is allowed"

    # Run 2: during it, the old Deferred finally fires (think: a thread or a
    # peer delivering late).  f2's own Deferred fires at t+2 with 'value of run 2',
    # well inside the timeout of 10.
    def f2():
        d2 = defer.Deferred()
        if flavour == "fires":
            reactor.callLater(1, d1.callback, "LATE VALUE OF RUN 1")
        else:
            reactor.callLater(1, d1.errback, RuntimeError("LATE FAILURE OF RUN 1"))
        reactor.callLater(2, d2.callback, "value of run 2")
        return d2

    try:
        got = ("returned", spinner.run(10, f2))
    except BaseException as e:
        got = ("raised", e)
    print("[%s] demanded: run 2 returns 'value of run 2' (what f2's Deferred fires with)" % flavour)
    print("[%s] happened: run 2 %s %r" % (flavour, got[0], got[1]))
    if got != ("returned", "value of run 2"):
        failed = True

# Same thing on the real reactor with nothing artificial: the work is in a thread
# that finishes after the timeout of run 1.
import time
from twisted.internet import reactor as real_reactor, threads

spinner = Spinner(real_reactor)
try:
    spinner.run(0.1, lambda: threads.deferToThread(lambda: (time.sleep(0.4), "LATE THREAD VALUE OF RUN 1")[1]))
except TimeoutError:
    pass
assert spinner.get_junk() == []


def f2():
    d2 = defer.Deferred()
    real_reactor.callLater(0.5, d2.callback, "value of run 2")
    return d2


try:
    got = ("returned", spinner.run(5, f2))
except BaseException as e:
    got = ("raised", e)
print("[real reactor, thread] demanded: run 2 returns 'value of run 2'")
print("[real reactor, thread] happened: run 2 %s %r" % got)
if got != ("returned", "value of run 2"):
    failed = True

sys.exit(1 if failed else 0)
