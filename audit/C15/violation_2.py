"""C15 violation 2: after a run that was interrupted (reactor.stop requested), the
Spinner stays armed (_spinning is still True).  When that run's Deferred fires
later, the old Spinner crashes the reactor under whoever is running -- even a
DIFFERENT, fresh Spinner -- and that run raises NoResultError although nobody
requested a stop and f's Deferred was going to fire well before the timeout.

This is upstream's own test_fires_after_timeout scenario with the first run ended
by an interrupt instead of by the timeout.
"""
import os
import signal
import sys
from twisted.internet import defer
from twisted.internet.selectreactor import SelectReactor
from testtools.twistedsupport._spinner import Spinner, NoResultError


class VirtualTimeReactor(SelectReactor):
    def __init__(self):
        self._now = 0.0
        super().__init__()

    def seconds(self):
        return self._now

    def doIteration(self, t):
        if t:
            self._now += t
        super().doIteration(0)


def scenario(reactor, unit, interrupt):
    spinner1 = Spinner(reactor)
    d1 = defer.Deferred()

    def f1():
        reactor.callLater(1 * unit, interrupt)  # stop requested at t=1, timeout is 5
        return d1

    try:
        spinner1.run(5 * unit, f1)
    except NoResultError:
        pass
    else:
        raise AssertionError("run 1 should have been interrupted")
    spinner1.clear_junk()

    spinner2 = Spinner(reactor)  # a brand new Spinner

    def f2():
        d2 = defer.Deferred()
        reactor.callLater(1 * unit, d1.callback, "late value of run 1")
        reactor.callLater(2 * unit, d2.callback, "value of run 2")
        return d2

    try:
        return ("returned", spinner2.run(10 * unit, f2))
    except BaseException as e:
        return ("raised", e)


failed = False
vr = VirtualTimeReactor()
got = scenario(vr, 1, lambda: vr.stop())
print("[virtual time, reactor.stop()] demanded: run 2 returns 'value of run 2' (no stop requested in run 2, Deferred fires at 2 < timeout 10)")
print("[virtual time, reactor.stop()] happened: run 2 %s %r" % got)
failed |= got != ("returned", "value of run 2")

from twisted.internet import reactor as real_reactor
got = scenario(real_reactor, 0.05, lambda: os.kill(os.getpid(), signal.SIGINT))
print("[real reactor, SIGINT] demanded: run 2 returns 'value of run 2'")
print("[real reactor, SIGINT] happened: run 2 %s %r" % got)
failed |= got != ("returned", "value of run 2")
sys.exit(1 if failed else 0)
