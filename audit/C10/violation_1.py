"""C10: an attachment made only of empty chunks is dropped (and an empty first
chunk loses the attachment's mime type)."""
import sys
from testtools.testresult.real import StreamToDict, StreamSummary, StreamToExtendedDecorator
from testtools.testresult.doubles import ExtendedTestResult

bad = 0
# (a) StreamToDict: attachment 'log' = one empty chunk
got = []
s = StreamToDict(got.append)
s.startTestRun()
s.status(test_id='a', file_name='log', file_bytes=b'', mime_type='text/plain; charset=utf8')
s.status(test_id='a', test_status='success')
s.stopTestRun()
print("(a) demanded: details == {'log': <b''>} (the attachment's chunks, concatenated)")
print("    got     : details ==", got[0]['details'])
bad += 'log' not in got[0]['details']

# (b) StreamSummary: skip whose reason attachment is the empty string
s = StreamSummary()
s.startTestRun()
s.status(test_id='a', test_status='skip', file_name='reason', file_bytes=b'',
         mime_type='text/plain; charset=utf8')
s.stopTestRun()
print("(b) demanded: skipped reason == '' (the reason attachment concatenated)")
print("    got     : skipped reason == %r, details %r" % (s.skipped[0][1], s.skipped[0][0]._details))
bad += s.skipped[0][1] != ''

# (c) StreamToExtendedDecorator: same event
log = ExtendedTestResult()
x = StreamToExtendedDecorator(log)
x.startTestRun()
x.status(test_id='a', test_status='skip', file_name='reason', file_bytes=b'',
         mime_type='text/plain; charset=utf8')
x.stopTestRun()
ev = [e for e in log._events if e[0] == 'addSkip'][0]
print("(c) demanded: addSkip details contain 'reason'")
print("    got     : addSkip details ==", ev[2])
bad += 'reason' not in ev[2]

# (d) first chunk empty: the attachment's mime type is lost
got = []
s = StreamToDict(got.append)
s.startTestRun()
s.status(test_id='a', file_name='log', file_bytes=b'', mime_type='text/plain; charset=utf8')
s.status(test_id='a', file_name='log', file_bytes=b'hello')
s.status(test_id='a', test_status='fail')
s.stopTestRun()
ct = got[0]['details']['log'].content_type
print("(d) demanded: attachment 'log' is text/plain; charset=utf8 with bytes b'hello'")
print("    got     :", got[0]['details']['log'])
bad += ct.type != 'text'
sys.exit(1 if bad else 0)
