"""C10: StreamToExtendedDecorator reports a test whose final status is 'exists'
as a *failure* at stopTestRun when any earlier event opened it."""
import sys
from testtools.testresult.real import StreamToExtendedDecorator, StreamSummary, StreamToDict
from testtools.testresult.doubles import ExtendedTestResult

events = [dict(test_id='a', test_status='inprogress'),
          dict(test_id='a', test_status='exists')]
log = ExtendedTestResult()
x = StreamToExtendedDecorator(log)
got = []
d = StreamToDict(got.append)
s = StreamSummary()
for r in (x, d, s):
    r.startTestRun()
    for ev in events:
        r.status(**ev)
    r.stopTestRun()
outcomes = [(e[0], e[1].id()) for e in log._events if e[0].startswith('add')]
print("events:", events)
print("StreamToDict reports      :", [(t['id'], t['status']) for t in got])
print("StreamSummary             : testsRun=%d errors=%d wasSuccessful=%s" % (
    s.testsRun, len(s.errors), s.wasSuccessful()))
print("demanded of StreamToExtendedDecorator: test 'a' accounted with its last status "
      "'exists' (i.e. no run outcome, like StreamSummary)")
print("got from StreamToExtendedDecorator   :", outcomes, "wasSuccessful=%s" % log.wasSuccessful())
sys.exit(1 if outcomes else 0)
