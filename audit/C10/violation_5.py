"""C10: StreamToExtendedDecorator over a plain unittest.TestResult: a skip whose
'reason' attachment is not text makes its own adapter
(ExtendedToOriginalDecorator.addSkip) raise ValueError; the test is started but
never gets an outcome nor stopTest."""
import sys, unittest
from testtools.testresult.real import StreamToExtendedDecorator

class Log(unittest.TestResult):
    def __init__(self):
        super().__init__(); self.log = []
    def startTest(self, t): self.log.append(('startTest', t.id())); super().startTest(t)
    def stopTest(self, t): self.log.append(('stopTest', t.id())); super().stopTest(t)
    def addSkip(self, t, reason): self.log.append(('addSkip', t.id(), reason)); super().addSkip(t, reason)

r = Log()
x = StreamToExtendedDecorator(r)
x.startTestRun()
err = None
try:
    x.status(test_id='a', test_status='skip', file_name='reason', file_bytes=b'\xff')
except Exception as e:
    err = e
x.stopTestRun()
print("demanded: test 'a' reported exactly once as skipped (startTest, addSkip, stopTest)")
print("got     : raised %r; calls %r; skipped=%r testsRun=%d" % (err, r.log, r.skipped, r.testsRun))
sys.exit(1 if err is not None or len(r.skipped) != 1 else 0)
