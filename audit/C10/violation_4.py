"""C10: StreamToExtendedDecorator.status() cannot take more than two positional
arguments, although StreamResult.status(test_id, test_status, test_tags, ...)
and the two sibling consumers accept them."""
import sys
from testtools.testresult.real import StreamToExtendedDecorator, StreamSummary, StreamToDict
from testtools.testresult.doubles import ExtendedTestResult

got = []
d = StreamToDict(got.append); d.startTestRun(); d.status('a', 'success', {'t'}); d.stopTestRun()
s = StreamSummary(); s.startTestRun(); s.status('a', 'success', {'t'}); s.stopTestRun()
print("StreamToDict  :", [(t['id'], t['status'], t['tags']) for t in got])
print("StreamSummary : testsRun =", s.testsRun)
log = ExtendedTestResult()
x = StreamToExtendedDecorator(log)
x.startTestRun()
err = None
try:
    x.status('a', 'success', {'t'})
except TypeError as e:
    err = e
x.stopTestRun()
outcomes = [e[0] for e in log._events if e[0].startswith('add')]
print("demanded: StreamToExtendedDecorator reports test 'a' once (addSuccess, tags {'t'})")
print("got     : raised %r; outcomes %r" % (err, outcomes))
sys.exit(1 if err is not None or outcomes != ['addSuccess'] else 0)
