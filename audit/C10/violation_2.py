"""C10: a text attachment with an unknown charset makes StreamSummary.status()
raise LookupError after the test was counted; it lands in no outcome list and
wasSuccessful() stays True for a failed test."""
import sys
from testtools.testresult.real import StreamSummary

bad = 0
for status, name, lst in (('fail', 'traceback', 'errors'), ('skip', 'reason', 'skipped'),
                          ('xfail', 'traceback', 'expectedFailures')):
    s = StreamSummary()
    s.startTestRun()
    try:
        s.status(test_id='a', test_status=status, file_name=name, file_bytes=b'boom',
                 mime_type='text/plain; charset=bogus')
        raised = None
    except Exception as e:
        raised = e
    s.stopTestRun()
    n = len(getattr(s, lst))
    print("status=%r: demanded testsRun=1, len(%s)=1%s" % (
        status, lst, ', wasSuccessful()=False' if status == 'fail' else ''))
    print("   got: raised=%r testsRun=%d len(%s)=%d wasSuccessful()=%s" % (
        raised, s.testsRun, lst, n, s.wasSuccessful()))
    if raised is not None or n != 1 or (status == 'fail' and s.wasSuccessful()):
        bad += 1
sys.exit(1 if bad else 0)
