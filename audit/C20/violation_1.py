"""C20 violation: on a Deferred that fired with a failure, the three
classifying matchers do not give "exactly one matches"; the answer depends on
the order in which they are applied, because succeeded()/failed() replace the
failure by a successful None result (deferred.addErrback(lambda _: None)).
"""
import itertools
import sys
from twisted.internet import defer
from testtools.matchers import AfterPreprocessing, Always, Equals, Is
from testtools.twistedsupport import failed, has_no_result, succeeded
from testtools.twistedsupport._deferred import extract_result

matchers = {
    "has_no_result()": has_no_result(),
    "succeeded(Always())": succeeded(Always()),
    "failed(Always())": failed(Always()),
}
bad = 0
print("Deferred under test: defer.fail(ValueError('v'))  (fired with a failure, no callbacks)")
print("Property demands: exactly one of the three matches, namely failed(Always()), in every order.")
for order in itertools.permutations(matchers):
    d = defer.fail(ValueError("v"))
    verdict = {name: matchers[name].match(d) is None for name in order}
    matched = [n for n in order if verdict[n]]
    ok = matched == ["failed(Always())"]
    bad += not ok
    print("  order %-60s matched: %-45s %s" % (" -> ".join(order), matched, "ok" if ok else "VIOLATION"))

print()
print("failed(m1) followed by failed(m2) on the same failed Deferred (both m1, m2 match the Failure):")
d = defer.fail(ValueError("v"))
m1 = failed(AfterPreprocessing(lambda f: f.type, Is(ValueError))).match(d)
m2 = failed(AfterPreprocessing(lambda f: str(f.value), Equals("v"))).match(d)
print("  first :", m1)
print("  second:", m2 and m2.describe())
if m1 is not None or m2 is not None:
    bad += 1
    print("  VIOLATION: failed(m) must match iff m matches the Failure")

print()
print("succeeded(Equals(None)) after succeeded(Always()) mismatched on a failed Deferred:")
d = defer.fail(ValueError("v"))
first = succeeded(Always()).match(d)
second = succeeded(Equals(None)).match(d)
print("  first is mismatch:", first is not None, "; second:", second)
if second is None:
    bad += 1
    print("  VIOLATION: a Deferred that fired with a failure is reported as having succeeded with None")

print()
print("extract_result after a failed() match must raise the failure's exception:")
d = defer.fail(ValueError("v"))
failed(Always()).match(d)
try:
    r = extract_result(d)
    print("  returned %r  -> VIOLATION" % (r,))
    bad += 1
except ValueError as e:
    print("  raised", repr(e))

sys.exit(1 if bad else 0)
