"""C20 violation: a Deferred that HAS fired (deferred.called is True, fired
with a value) is classified as "has no result" and extract_result raises
DeferredNotFired, whenever Twisted does not run newly added callbacks
immediately: (a) the Deferred is paused, (b) one of its callbacks returned a
not-yet-fired Deferred ("nested result"), (c) the matcher is applied
re-entrantly from one of the Deferred's own callbacks (match during fire).
on_deferred_result/extract_result infer the state only from whether the
callbacks they add run synchronously.
"""
import sys
from twisted.internet import defer
from testtools.matchers import Always
from testtools.twistedsupport import failed, has_no_result, succeeded
from testtools.twistedsupport._deferred import DeferredNotFired, extract_result


def classify(d):
    out = {
        "has_no_result()": has_no_result().match(d) is None,
        "succeeded(Always())": succeeded(Always()).match(d) is None,
        "failed(Always())": failed(Always()).match(d) is None,
    }
    try:
        out["extract_result"] = repr(extract_result(d))
    except DeferredNotFired as e:
        out["extract_result"] = "DeferredNotFired: %s" % e
    return out


bad = 0


def report(label, d_called, verdict, count=True):
    global bad
    print(label)
    print("   deferred.called =", d_called, "(it has been fired with a value)")
    print("   demanded: only succeeded(Always()) matches; extract_result returns the value")
    print("   got     :", verdict)
    if verdict["has_no_result()"] or not verdict["succeeded(Always())"] or verdict[
        "extract_result"
    ].startswith("DeferredNotFired"):
        if count:
            bad += 1
            print("   VIOLATION")
        else:
            print("   (debatable: the value is pending on the inner Deferred; not counted)")


# (a) paused, then fired with 1
d = defer.Deferred()
d.pause()
d.callback(1)
report("(a) d.pause(); d.callback(1)", d.called, classify(d))

# (b) fired with 1, a previously attached callback returned an unfired Deferred
inner = defer.Deferred()
d = defer.Deferred()
d.addCallback(lambda _: inner)
d.callback(1)
report("(b) d.addCallback(lambda _: inner_unfired); d.callback(1)", d.called, classify(d), count=False)

# (c) match from inside one of the Deferred's own callbacks (order: fire, match during fire)
seen = {}
d = defer.Deferred()


def cb(value):
    seen["called"] = d.called
    seen["verdict"] = classify(d)
    return value


d.addCallback(cb)
d.callback(3)
report("(c) matchers applied inside d's own callback while d fires with 3", seen["called"], seen["verdict"])

sys.exit(1 if bad else 0)
