"""C20 violation: SynchronousDeferredRunTest does not report a test that
returns an already-fired Deferred "as if it had returned or raised directly"
when the test registered a cleanup with keyword arguments.

SynchronousDeferredRunTest._run_user(self, function, *args) does not accept
**kwargs, but RunTest._run_cleanups calls
self._run_user(function, *arguments, **keywordArguments).
"""
import sys
from twisted.internet import defer
from testtools import TestCase
from testtools.runtest import RunTest
from testtools.testresult.doubles import ExtendedTestResult
from testtools.twistedsupport import SynchronousDeferredRunTest

calls = []


def cleanup(**kw):
    calls.append(kw)


def outcome(test_body, runner, setup_body=None):
    class T(TestCase):
        def setUp(self):
            super().setUp()
            if setup_body is not None:
                return setup_body(self)

        def test_x(self):
            return test_body(self)

    result = ExtendedTestResult()
    del calls[:]
    try:
        T("test_x", runTest=runner).run(result)
        propagated = None
    except BaseException as e:
        propagated = repr(e)
    events = []
    for ev in result._events:
        if len(ev) > 2 and isinstance(ev[2], dict) and "traceback" in ev[2]:
            last = ev[2]["traceback"].as_text().strip().splitlines()[-1]
            events.append((ev[0], last))
        else:
            events.append((ev[0],))
    return events, propagated, list(calls)


bad = 0

# Scenario A: passing test.
def direct(self):
    self.addCleanup(cleanup, key=1)
    return None

def deferred(self):
    self.addCleanup(cleanup, key=1)
    return defer.succeed(None)

a = outcome(direct, RunTest)
b = outcome(deferred, SynchronousDeferredRunTest)
print("A. test registers addCleanup(cleanup, key=1) and succeeds")
print("   returned directly (RunTest)            :", a)
print("   returned defer.succeed(None) (SyncDRT) :", b)
if a != b:
    bad += 1
    print("   VIOLATION: outcomes differ; cleanup was never run under SynchronousDeferredRunTest")

# Scenario B: setUp registers such a cleanup and then fails with a fired Deferred.
def su_direct(self):
    self.addCleanup(cleanup, key=1)
    raise RuntimeError("setUp broke")

def su_deferred(self):
    self.addCleanup(cleanup, key=1)
    return defer.fail(RuntimeError("setUp broke"))

a = outcome(lambda s: None, RunTest, su_direct)
b = outcome(lambda s: None, SynchronousDeferredRunTest, su_deferred)
print("B. setUp registers addCleanup(cleanup, key=1) and fails")
print("   raised directly (RunTest)               :", a)
print("   returned defer.fail(...) (SyncDRT)      :", b)
if a != b:
    bad += 1
    print("   VIOLATION: outcomes differ (TypeError escapes run(); no addError is reported)")

sys.exit(1 if bad else 0)
