"""C08 violation 1: an outcome whose error text contains a lone surrogate
(what Python itself produces for undecodable file names, argv, environ via
surrogateescape) is dropped by the result adapters.

Run:  cd /tmp/hunt/C08 && PYTHONPATH=/tmp/hunt/C08 /venv/bin/python violation_1.py
"""

import os
import sys

import testtools
from testtools.testresult import (
    ExtendedToOriginalDecorator,
    MultiTestResult,
    TestByTestResult,
)
from testtools.testresult.doubles import (
    ExtendedTestResult,
    Python26TestResult,
    Python27TestResult,
    TwistedTestResult,
)

# A perfectly ordinary str in Python 3: the name of a file whose bytes are
# not valid UTF-8, as returned by os.listdir / os.fsdecode / sys.argv.
NAME = os.fsdecode(b"data-\xff.bin")  # 'data-\udcff.bin'


def exc_info():
    try:
        raise RuntimeError("cannot parse " + NAME)
    except RuntimeError:
        return sys.exc_info()


class Case(testtools.TestCase):
    def test_plain(self):
        pass

    def test_error(self):
        raise RuntimeError("cannot parse " + NAME)

    def test_skip(self):
        self.skipTest("cannot parse " + NAME)


violations = []


def outcomes(result):
    return [e[0] for e in result._events if e[0].startswith("add")]


# --- A: TestByTestResult, depth-1 stack, outcome given as exc_info -------
print("A. TestByTestResult, addError(test, exc_info)")
print("   demanded: exactly one callback at stopTest with status 'error'")
calls = []
tbt = TestByTestResult(lambda **kw: calls.append(kw["status"]))
test = Case("test_plain")
tbt.startTestRun()
tbt.startTest(test)
raised = None
try:
    tbt.addError(test, exc_info())
except Exception as e:  # the driver survives, as RunTest's finally: does
    raised = e
tbt.stopTest(test)
tbt.stopTestRun()
print("   happened: addError raised %r; callbacks=%r" % (raised, calls))
if raised is not None or calls != ["error"]:
    violations.append("A")

# --- B: MultiTestResult(testtools.TestResult, extended) ------------------
print("B. MultiTestResult(testtools.TestResult(), ExtendedTestResult()),")
print("   addFailure(test, exc_info)")
print("   demanded: the extended target receives addFailure exactly once")
ext = ExtendedTestResult()
multi = MultiTestResult(testtools.TestResult(), ext)
multi.startTestRun()
multi.startTest(test)
raised = None
try:
    multi.addFailure(test, exc_info())
except Exception as e:
    raised = e
multi.stopTest(test)
multi.stopTestRun()
print(
    "   happened: raised %r; extended target saw %r"
    % (raised, [e[0] for e in ext._events])
)
if outcomes(ext) != ["addFailure"]:
    violations.append("B")

# --- C: ExtendedToOriginalDecorator over non-details targets, the outcome
#        given as the details testtools.TestCase itself builds -------------
for flavour in (Python26TestResult, Python27TestResult, TwistedTestResult):
    for name, want in (("test_error", "addError"), ("test_skip", "addSkip")):
        if flavour is Python26TestResult and want == "addSkip":
            continue  # degrades to addSuccess without touching the text
        target = flavour()
        print(
            "C. ExtendedToOriginalDecorator(%s), Case(%r).run()"
            % (flavour.__name__, name)
        )
        print(
            "   demanded: target gets startTest, %s (synthetic exception/"
            "reason containing the detail text), stopTest" % want
        )
        raised = None
        try:
            # TestCase.run wraps the result in ExtendedToOriginalDecorator
            # and reports with details=self.getDetails().
            Case(name).run(ExtendedToOriginalDecorator(target))
        except Exception as e:
            raised = e
        got = [e[0] for e in target._events if e[0] != "startTestRun"]
        print("   happened: run() raised %r; target saw %r" % (raised, got))
        if outcomes(target) != [want]:
            violations.append("C/%s/%s" % (flavour.__name__, name))

print()
if violations:
    print("VIOLATED:", ", ".join(violations))
    sys.exit(1)
print("no violation")
