"""C13 violation 2: ConcurrentTestSuite keys its thread table by the sub-suite
object (testsuite.py lines 90, 93-95).  Two distinct sub-suites that compare
equal (unittest.TestCase.__eq__/__hash__ only look at the class and the
method name, so e.g. the usual 'parametrised TestCase' idiom produces equal
instances) collide: the first worker's thread is forgotten.  Consequences:
(a) run() returns while a worker is still running, (b) with a further worker
run() raises KeyError and tells the remaining workers to stop."""
import sys
import threading
import time
import unittest

import testtools
from testtools.testsuite import ConcurrentTestSuite

failed = False

# ---------------------------------------------------------------- part (a)
release = threading.Event()
finished = []


class Param(unittest.TestCase):
    """A parametrised test: one method, the parameter lives on the instance."""

    def __init__(self, name, wait):
        super().__init__("test")
        self.name, self.wait = name, wait

    def test(self):
        if self.wait:
            # Released by the main thread only after run() has returned (or
            # after 5s, so that a correct implementation does not deadlock).
            release.wait(5)
        finished.append(self.name)


slow, fast = Param("slow", True), Param("fast", False)
assert slow is not fast and slow == fast and hash(slow) == hash(fast)
result = testtools.TestResult()
ConcurrentTestSuite(unittest.TestSuite(), lambda s: [slow, fast]).run(result)
at_return = (list(finished), result.testsRun)
release.set()
time.sleep(0.5)
print("(a) two workers, one test each, the two TestCase instances compare equal")
print("  demanded: run() returns only after both workers finished (2 tests run)")
print("  happened: at return finished=%r testsRun=%d; half a second later "
      "finished=%r testsRun=%d" % (at_return + (list(finished), result.testsRun)))
if sorted(at_return[0]) != ["fast", "slow"] or at_return[1] != 2:
    failed = True

# ---------------------------------------------------------------- part (b)


class Sleeper(unittest.TestCase):
    def __init__(self, delay):
        super().__init__("test")
        self.delay = delay

    def test(self):
        time.sleep(self.delay)


class Other(unittest.TestCase):
    def test(self):
        time.sleep(0.6)


result = testtools.TestResult()
try:
    ConcurrentTestSuite(
        unittest.TestSuite(),
        lambda s: [Sleeper(0.0), Sleeper(0.3), Other("test")]).run(result)
    outcome = "returned normally, testsRun=%d" % result.testsRun
    if result.testsRun != 3:
        failed = True
except BaseException as e:
    outcome = "raised %s(%s); testsRun=%d, result.shouldStop=%r" % (
        type(e).__name__, e, result.testsRun, result.shouldStop)
    failed = True
print("(b) three workers, two of them equal TestCase instances, nobody raises")
print("  demanded: run() returns normally after 3 tests ran")
print("  happened: run() %s" % outcome)

if failed:
    print("VIOLATION")
    sys.exit(1)
print("OK: property holds")
