"""C13 violation 1: ConcurrentTestSuite cannot run sub-suites that are
unittest.TestSuite objects (or testtools' own FixtureSuite): they are used as
dict keys (testsuite.py line 90) but BaseTestSuite defines __eq__ without
__hash__, so they are unhashable.  run() raises TypeError before any worker
thread is started; no sub-suite is run, no event is delivered."""
import sys
import unittest

import testtools
from testtools.testsuite import ConcurrentTestSuite, FixtureSuite

ran = []


class T(unittest.TestCase):
    def test_a(self):
        ran.append("a")

    def test_b(self):
        ran.append("b")

    def test_c(self):
        ran.append("c")


class Fixture:
    def setUp(self):
        pass

    def cleanUp(self):
        pass


def attempt(label, make_tests, expected):
    del ran[:]
    result = testtools.TestResult()
    suite = ConcurrentTestSuite(unittest.TestSuite(), make_tests)
    try:
        suite.run(result)
        outcome = "returned normally"
    except BaseException as e:
        outcome = "raised %s: %s" % (type(e).__name__, e)
    ok = sorted(ran) == expected and result.testsRun == len(expected)
    print("%s" % label)
    print("  demanded: every sub-suite run exactly once -> tests %r, run() returns" % expected)
    print("  happened: run() %s; tests that ran: %r; result.testsRun=%d"
          % (outcome, sorted(ran), result.testsRun))
    return ok


results = [
    # 2 workers: one running 2 tests, one running 1 test
    attempt("two unittest.TestSuite sub-suites (2 tests + 1 test)",
            lambda suite: [unittest.TestSuite([T("test_a"), T("test_b")]),
                           unittest.TestSuite([T("test_c")])],
            ["a", "b", "c"]),
    # 1 worker running 0 tests
    attempt("one empty unittest.TestSuite (a worker running 0 tests)",
            lambda suite: [unittest.TestSuite()], []),
    # testtools' own partition suite from the same module
    attempt("two testtools.testsuite.FixtureSuite sub-suites",
            lambda suite: [FixtureSuite(Fixture(), [T("test_a")]),
                           FixtureSuite(Fixture(), [T("test_b")])],
            ["a", "b"]),
]
if all(results):
    print("OK: property holds")
    sys.exit(0)
print("VIOLATION: sub-suites produced by make_tests were not run at all")
sys.exit(1)
