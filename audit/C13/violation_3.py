"""C13 violation 3: a sub-suite whose run() raises an exception that is not a
subclass of Exception (SystemExit from a stray sys.exit(), KeyboardInterrupt,
GeneratorExit, a direct BaseException subclass) is NOT reported as a
'broken-runner' error: both _run_test methods catch only Exception
(testsuite.py lines 105 and 192).  In a worker thread such an exception goes
nowhere (threading swallows SystemExit silently), so the sub-suite is lost:
with ConcurrentTestSuite the caller's result receives nothing at all and
wasSuccessful() stays True."""
import sys
import threading
import unittest

import testtools
from testtools.testsuite import ConcurrentStreamTestSuite, ConcurrentTestSuite

threading.excepthook = lambda args: None  # keep the output readable


class BrokenSuite:
    """A sub-suite whose run() raises (e.g. a fixture calling sys.exit())."""

    def __init__(self, exc):
        self.exc = exc

    def run(self, result):
        raise self.exc


class Events(testtools.StreamResult):
    def __init__(self):
        self.events = []

    def status(self, **kw):
        self.events.append(kw)


failed = False
for exc in (RuntimeError("control: an ordinary Exception"), SystemExit(3),
            KeyboardInterrupt(), GeneratorExit(), BaseException("base")):
    result = testtools.TestResult()
    ConcurrentTestSuite(unittest.TestSuite(), lambda s: [BrokenSuite(exc)]).run(result)
    stream = Events()
    stream.startTestRun()
    ConcurrentStreamTestSuite(lambda: [(BrokenSuite(exc), "w0")]).run(stream)
    stream.stopTestRun()
    finals = [(e["test_id"], e["test_status"]) for e in stream.events
              if e["test_status"] not in (None, "inprogress")]
    cts_ok = len(result.errors) == 1 and result.errors[0][0].id() == "broken-runner"
    css_ok = finals == [("broken-runner-'w0'", "fail")]
    print("worker run() raises %s" % type(exc).__name__)
    print("  demanded: one errored 'broken-runner' test on the caller's result")
    print("  ConcurrentTestSuite      : testsRun=%d errors=%r wasSuccessful=%r -> %s"
          % (result.testsRun, [t.id() for t, _ in result.errors],
             result.wasSuccessful(), "ok" if cts_ok else "LOST"))
    print("  ConcurrentStreamTestSuite: final events=%r -> %s"
          % (finals, "ok" if css_ok else "LOST"))
    if not (cts_ok and css_ok):
        failed = True
if failed:
    print("VIOLATION: sub-suites that raised from run() were lost")
    sys.exit(1)
print("OK: property holds")
