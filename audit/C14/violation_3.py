"""C14 violation 3: when two stages return the same Deferred object (e.g.
setUp stores a Deferred on self and returns it, and the test method - or
tearDown, or a cleanup - returns it again after it has fired), the run
dead-locks and is reported as a TimeoutError, and the remaining stages never
run -- although every stage returned a Deferred that fired cleanly and long
before the timeout.

Property C14: "The outcome is success if and only if every stage completed
without exception or failed Deferred within the timeout ..."; "the next stage
starts only after it has fired, cleanups run in reverse order".
"""
import sys
import warnings

from twisted.internet import defer, reactor

from testtools import TestCase
from testtools.testresult.doubles import ExtendedTestResult
from testtools.twistedsupport import (
    AsynchronousDeferredRunTest,
    AsynchronousDeferredRunTestForBrokenTwisted,
)

warnings.simplefilter("ignore")
log = []


def fires_soon():
    d = defer.Deferred()
    reactor.callLater(0.001, d.callback, "ready")
    return d


class SetUpAndTest(TestCase):
    def setUp(self):
        super().setUp()
        self.addCleanup(log.append, "cleanup")
        self.ready = fires_soon()
        return self.ready

    def test_it(self):
        log.append("test")
        return self.ready  # fired long ago

    def tearDown(self):
        log.append("tearDown")
        super().tearDown()


class TestAndTearDown(TestCase):
    def test_it(self):
        self.addCleanup(log.append, "cleanup")
        log.append("test")
        self.done = fires_soon()
        return self.done

    def tearDown(self):
        log.append("tearDown")
        super().tearDown()
        return self.done


class TestAndCleanup(TestCase):
    def test_it(self):
        self.addCleanup(log.append, "cleanup")
        log.append("test")
        self.done = fires_soon()
        self.addCleanup(lambda: self.done)
        return self.done

    def tearDown(self):
        log.append("tearDown")
        super().tearDown()


class Control(TestCase):
    """Same shape, but distinct Deferred objects: works."""

    def setUp(self):
        super().setUp()
        self.addCleanup(log.append, "cleanup")
        return fires_soon()

    def test_it(self):
        log.append("test")
        return fires_soon()

    def tearDown(self):
        log.append("tearDown")
        super().tearDown()
        return fires_soon()


violations = 0
for runner in (AsynchronousDeferredRunTest,
               AsynchronousDeferredRunTestForBrokenTwisted):
    for cls in (Control, SetUpAndTest, TestAndTearDown, TestAndCleanup):
        del log[:]
        case = cls("test_it")
        result = ExtendedTestResult()
        runner(case, case.exception_handlers, last_resort=case._report_error,
               reactor=reactor, timeout=0.25).run(result)
        outcomes = [e[0] for e in result._events if e[0].startswith("add")]
        err = ""
        for e in result._events:
            if e[0] == "addError":
                err = e[2]["traceback"].as_text().strip().splitlines()[-1]
        print("%s / %s" % (runner.__name__, cls.__name__))
        print("  demanded: ['addSuccess'], stages run: "
              "['test', 'tearDown', 'cleanup']")
        print("  got:      %r, stages run: %r %s" % (outcomes, log, err[:110]))
        if outcomes != ["addSuccess"] or log != ["test", "tearDown", "cleanup"]:
            violations += 1
            print("  ** VIOLATION")
print("violations: %d" % violations)
sys.exit(1 if violations else 0)
