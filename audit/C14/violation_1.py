"""C14 violation 1: an interrupt (SIGINT) that arrives in the reactor iteration
in which the run's last Deferred fires is silently lost.

Property C14: "a timeout or an interrupt yields an error (an interrupt also
asks the result to stop). After every run, whatever happened, the reactor has
no pending calls ..." -- "for all interrupt instants; both runner variants".

Three interrupt instants are exercised, under both runners:
  A. SIGINT while a purely synchronous test method is executing
  B. SIGINT in the delayed call that also fires the test's Deferred
  C. SIGINT whose reactor.stop() request is consumed in the same iteration
     in which the test's Deferred fires
  D. SIGINT whose reactor.stop() request is consumed in the same iteration
     in which the timeout fires (an error is reported, but the result is not
     asked to stop)
and then an innocent test is run afterwards.
"""
import os
import signal
import sys
import time

from twisted.internet import defer, reactor

from testtools import TestCase
from testtools.testresult.doubles import ExtendedTestResult
from testtools.twistedsupport import (
    AsynchronousDeferredRunTest,
    AsynchronousDeferredRunTestForBrokenTwisted,
)


def sigint():
    os.kill(os.getpid(), signal.SIGINT)


class SyncInterrupted(TestCase):
    def test_it(self):
        sigint()  # the user hits Ctrl-C while the test method is executing


class LastIterationInterrupted(TestCase):
    def test_it(self):
        d = defer.Deferred()

        def fire():
            sigint()
            d.callback(None)

        reactor.callLater(0.005, fire)
        return d


class StopConsumedButIgnored(TestCase):
    def test_it(self):
        d = defer.Deferred()

        def step():
            sigint()  # Twisted queues reactor.stop() for the next iteration
            reactor.callLater(0, d.callback, None)  # ... in which d fires too
            time.sleep(0.002)

        reactor.callLater(0.001, step)
        return d


class InterruptedAsTimeoutFires(TestCase):
    timeout = 0.01

    def test_it(self):
        def step():
            sigint()
            time.sleep(0.02)  # by the next iteration the timeout is due too

        reactor.callLater(0.002, step)
        return defer.Deferred()


class Innocent(TestCase):
    def test_it(self):
        d = defer.Deferred()
        reactor.callLater(0.005, d.callback, None)
        return d


def run(cls, runner):
    case = cls("test_it")
    result = ExtendedTestResult()
    raised = None
    try:
        runner(case, case.exception_handlers, last_resort=case._report_error,
               reactor=reactor, timeout=getattr(cls, 'timeout', 0.5)).run(result)
    except BaseException as e:  # noqa
        raised = e
    outcomes = [e[0] for e in result._events if e[0].startswith("add")]
    pending = len(reactor.getDelayedCalls()) + len(reactor.threadCallQueue)
    return outcomes, result.shouldStop, pending, raised


violations = 0
for runner in (AsynchronousDeferredRunTest,
               AsynchronousDeferredRunTestForBrokenTwisted):
    print("==", runner.__name__)
    for cls in (SyncInterrupted, LastIterationInterrupted,
                StopConsumedButIgnored, InterruptedAsTimeoutFires):
        outcomes, should_stop, pending, raised = run(cls, runner)
        print("%s: demanded outcome ['addError'] + result.stop() + no pending "
              "reactor calls" % cls.__name__)
        print("    got outcome %r, result.shouldStop=%r, pending reactor "
              "calls=%d, raised=%r" % (outcomes, should_stop, pending, raised))
        bad = outcomes != ["addError"] or not should_stop or pending
        # the follow-up test did nothing wrong and was not interrupted
        outcomes2, should_stop2, pending2, raised2 = run(Innocent, runner)
        print("  following innocent test: demanded ['addSuccess'], no stop")
        print("    got outcome %r, result.shouldStop=%r"
              % (outcomes2, should_stop2))
        bad2 = outcomes2 != ["addSuccess"] or should_stop2
        if bad or bad2:
            violations += 1
            print("  ** VIOLATION")

print()
print("violations: %d" % violations)
sys.exit(1 if violations else 0)
