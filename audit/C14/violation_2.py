"""C14 violation 2: a cleanup that raises GeneratorExit (or whose Deferred
fails with it) ends the cleanup phase: the remaining cleanups never run and the
test is reported as a SUCCESS, nothing re-raised.

Property C14: "cleanups run in reverse order ... The outcome is success if and
only if every stage completed without exception or failed Deferred".
"""
import sys

from twisted.internet import defer, reactor

from testtools import TestCase
from testtools.testresult.doubles import ExtendedTestResult
from testtools.twistedsupport import (
    AsynchronousDeferredRunTest,
    AsynchronousDeferredRunTestForBrokenTwisted,
)

ran = []


def raises_generator_exit():
    ran.append("second-registered (raises GeneratorExit)")
    raise GeneratorExit()


def fails_with_generator_exit():
    ran.append("second-registered (Deferred fails with GeneratorExit)")
    d = defer.Deferred()
    reactor.callLater(0.001, d.errback, GeneratorExit())
    return d


class SyncCase(TestCase):
    def test_it(self):
        self.addCleanup(ran.append, "first-registered")
        self.addCleanup(raises_generator_exit)


class DeferredCase(TestCase):
    def test_it(self):
        self.addCleanup(ran.append, "first-registered")
        self.addCleanup(fails_with_generator_exit)


violations = 0
for runner in (AsynchronousDeferredRunTest,
               AsynchronousDeferredRunTestForBrokenTwisted):
    for cls in (SyncCase, DeferredCase):
        del ran[:]
        case = cls("test_it")
        result = ExtendedTestResult()
        raised = None
        try:
            runner(case, case.exception_handlers,
                   last_resort=case._report_error, reactor=reactor,
                   timeout=0.5).run(result)
        except BaseException as e:  # noqa
            raised = e
        outcomes = [e[0] for e in result._events if e[0].startswith("add")]
        print("%s / %s" % (runner.__name__, cls.__name__))
        print("  demanded: both cleanups run (reverse order), outcome is not "
              "a success (a cleanup raised)")
        print("  got: cleanups run=%r outcome=%r raised=%r"
              % (ran, outcomes, raised))
        if outcomes == ["addSuccess"] or "first-registered" not in ran:
            violations += 1
            print("  ** VIOLATION")
print("violations: %d" % violations)
sys.exit(1 if violations else 0)
