"""C05 violation 3: the skip / expected-failure reason is dropped or
overwritten when the test raises more than one exception."""
import sys
from testtools import TestCase


class Rec:
    def __init__(self):
        self.outcomes = []

    def startTest(self, t): pass
    def stopTest(self, t): pass

    def _add(self, kind, details):
        self.outcomes.append(
            (kind, {k: b"".join(v.iter_bytes()).decode("utf8", "replace")
                    for k, v in (details or {}).items()}))

    def addError(self, t, err=None, details=None): self._add("error", details)
    def addFailure(self, t, err=None, details=None): self._add("failure", details)
    def addSkip(self, t, reason=None, details=None): self._add("skip", details)
    def addExpectedFailure(self, t, err=None, details=None): self._add("xfail", details)


class SkipThenCleanupError(TestCase):
    """test method skips, a cleanup raises an error"""
    def test(self):
        self.addCleanup(lambda: 1 / 0)
        self.skipTest("needs-database")
    wanted = ["needs-database"]


class TwoSkips(TestCase):
    """test method skips, tearDown skips too"""
    def test(self):
        self.skipTest("reason-from-test")

    def tearDown(self):
        super().tearDown()
        self.skipTest("reason-from-tearDown")
    wanted = ["reason-from-test", "reason-from-tearDown"]


class XfailThenSkip(TestCase):
    """expectFailure in the test method, tearDown skips"""
    def test(self):
        self.expectFailure("bug-1234-not-fixed", self.assertEqual, 1, 0)

    def tearDown(self):
        super().tearDown()
        self.skipTest("reason-from-tearDown")
    wanted = ["bug-1234-not-fixed", "reason-from-tearDown"]


bad = 0
for cls in (SkipThenCleanupError, TwoSkips, XfailThenSkip):
    r = Rec()
    cls("test").run(r)
    (kind, details), = r.outcomes
    blob = "\n".join(details.values())
    missing = [w for w in cls.wanted if w not in blob]
    print("program  :", cls.__name__, "-", cls.__doc__)
    print("demanded : the single outcome carries the reason(s) %r" % cls.wanted)
    print("           (collisions on a name are renamed, never overwritten)")
    print("happened :", kind, {k: (v if k == "reason" else "...") for k, v in details.items()})
    if missing:
        print("VIOLATION: reason(s) %r reached the result nowhere" % missing)
        bad = 1
    print()
sys.exit(bad)
