"""C05 violation 8: an exception whose message holds a lone surrogate (typical for
undecodable file names, os.fsdecode / surrogateescape) gets a traceback detail
that cannot yield its bytes; with testtools.TestResult the run crashes."""
import os, sys
import testtools
from testtools import TestCase


class T(TestCase):
    def test(self):
        name = os.fsdecode(b"caf\xe9.txt")       # 'caf\udce9.txt'
        raise ValueError("cannot parse " + name)


class Rec:
    def startTest(self, t): pass
    def stopTest(self, t): pass
    def addError(self, t, err=None, details=None):
        try:
            self.got = b"".join(details["traceback"].iter_bytes())
        except Exception as e:
            self.got = e

r = Rec(); T("test").run(r)
print("extended result, iter_bytes() of the traceback detail ->", repr(r.got))
res = testtools.TestResult()
try:
    T("test").run(res)
    print("testtools.TestResult: errors =", len(res.errors))
except Exception as e:
    print("testtools.TestResult: run() raised", repr(e), "errors recorded:", len(res.errors))
    sys.exit(1)
sys.exit(isinstance(r.got, Exception))
