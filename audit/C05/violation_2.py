"""C05 violation 2: when fixture.setUp() fails with a MultipleExceptions whose
last element is not a fixtures SetupError, useFixture gathers none of the
fixture's details."""
import sys
import fixtures
from testtools import TestCase
from testtools.content import text_content


class Inner(fixtures.Fixture):          # new-style fixture (overrides _setUp)
    def _setUp(self):
        self.addDetail("inner-log", text_content("inner"))
        raise ValueError("inner cannot start")


class Outer(fixtures.Fixture):          # old-style fixture (overrides setUp),
    def setUp(self):                    # still supported by fixtures
        super().setUp()
        self.addDetail("outer-log", text_content("outer"))
        self.useFixture(Inner())        # raises MultipleExceptions


def ei(e):
    try:
        raise e
    except BaseException:
        return sys.exc_info()


class TwoErrors(fixtures.Fixture):      # old-style, two problems during setUp
    def setUp(self):
        super().setUp()
        self.addDetail("two-log", text_content("two"))
        raise fixtures.MultipleExceptions(ei(ValueError(1)), ei(KeyError(2)))


class Rec:
    def __init__(self):
        self.outcomes = []

    def startTest(self, t): pass
    def stopTest(self, t): pass

    def addError(self, t, err=None, details=None):
        self.outcomes.append(("error", sorted(details)))


bad = 0
for fixture_class, wanted in ((Outer, "outer-log"), (TwoErrors, "two-log")):
    class T(TestCase):
        def test(self):
            self.useFixture(fixture_class())
    r = Rec()
    T("test").run(r)
    (kind, names), = r.outcomes
    print("fixture  :", fixture_class.__name__)
    print("demanded : outcome carries every detail of the fixture, also when")
    print("           its setUp fails -> %r must be present" % wanted)
    print("happened :", kind, names)
    if wanted not in names:
        print("VIOLATION: fixture detail %r was dropped" % wanted)
        bad = 1
sys.exit(bad)
