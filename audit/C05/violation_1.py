"""C05 violation 1: a fixture detail added after useFixture() returned never
reaches the result (useFixture snapshots fixture.getDetails() too early)."""
import sys
import fixtures
from testtools import TestCase
from testtools.content import text_content


class Server(fixtures.Fixture):
    def _setUp(self):
        self.addDetail("at-setup", text_content("attached in _setUp"))

    def request(self):
        # a fixture attaching diagnostic output while the test uses it
        self.addDetail("request-log", text_content("attached while in use"))


class T(TestCase):
    def test(self):
        server = self.useFixture(Server())
        server.request()
        self.fail("boom")


class Rec:
    def __init__(self):
        self.outcomes = []

    def startTest(self, t): pass
    def stopTest(self, t): pass

    def addFailure(self, t, err=None, details=None):
        self.outcomes.append(
            ("failure", {k: b"".join(v.iter_bytes()) for k, v in details.items()}))


r = Rec()
T("test").run(r)
(kind, details), = r.outcomes
print("demanded : the outcome carries every detail of the fixture passed to")
print("           useFixture: 'at-setup' AND 'request-log'")
print("happened :", kind, sorted(details))
if "request-log" not in details:
    print("VIOLATION: fixture detail 'request-log' was dropped")
    sys.exit(1)
print("no violation")
