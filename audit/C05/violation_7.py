"""C05 violation 7: onException decides with '==' (list membership) whether an
exception type is a skip / expected failure; an exception class with an
unusual __eq__ (via its metaclass) gets no traceback detail at all."""
import sys
from testtools import TestCase


class Meta(type):
    def __eq__(cls, other):
        return True          # e.g. a proxy / ORM / mock style "equal to anything"

    def __hash__(cls):
        return 1


class OddError(Exception, metaclass=Meta):
    pass


class T(TestCase):
    def test(self):
        raise OddError("lost")


class Rec:
    def startTest(self, t): pass
    def stopTest(self, t): pass

    def addError(self, t, err=None, details=None):
        self.kind, self.names = "error", sorted(details)


r = Rec()
T("test").run(r)
print("demanded : one traceback detail for the error raised by the test method")
print("happened :", r.kind, r.names)
if not any(n.startswith("traceback") for n in r.names):
    print("VIOLATION: the error has no traceback detail")
    sys.exit(1)
