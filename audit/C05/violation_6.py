"""C05 violation 6: addOnException handlers are never reset, so when a test
object is run again (or was cloned with clone_test_with_new_id) a handler is
called more than once for one exception."""
import sys
from testtools import TestCase, clone_test_with_new_id
from testtools.content import text_content

calls = []


class T(TestCase):
    def setUp(self):
        super().setUp()
        self.addOnException(self.diagnose)

    def diagnose(self, exc_info):
        calls.append(self.id())
        self.addDetailUniqueName("diagnosis", text_content("expensive state dump"))

    def test(self):
        self.fail("boom")


class Rec:
    def startTest(self, t): pass
    def stopTest(self, t): pass

    def addFailure(self, t, err=None, details=None):
        self.names = sorted(details)


bad = 0
t = T("test")
for n in (1, 2, 3):
    del calls[:]
    r = Rec()
    t.run(r)
    print("run %d of the same TestCase object" % n)
    print("demanded : the handler registered by setUp is called once for the one")
    print("           exception raised; the outcome carries one 'diagnosis' detail")
    print("happened : handler calls = %d, details = %s" % (len(calls), r.names))
    if len(calls) != 1:
        bad = 1

print()
a = clone_test_with_new_id(T("test"), "scenario-A")
b = clone_test_with_new_id(a, "scenario-B")
a.run(Rec())
del calls[:]
r = Rec()
b.run(r)
print("clones (as made by testscenarios): after running scenario-A, run scenario-B")
print("demanded : one handler call, made on scenario-B")
print("happened : handler calls =", calls, "details of B =", r.names)
if calls != ["scenario-B"]:
    bad = 1
if bad:
    print("VIOLATION: handlers called more than once per exception")
sys.exit(bad)
