"""C05 violation 4: under @unittest.expectedFailure a MultipleExceptions is
not unpacked: its constituents get no traceback detail of their own."""
import sys
import unittest
import fixtures
from testtools import TestCase
from testtools.content import text_content


class Broken(fixtures.Fixture):
    def _setUp(self):
        self.addCleanup(self.cleanup_boom)
        raise ValueError("DATABASE-UNREACHABLE")     # -> MultipleExceptions

    def cleanup_boom(self):
        raise KeyError("CLEANUP-ALSO-FAILED")


class T(TestCase):
    @unittest.expectedFailure
    def test(self):
        self.useFixture(Broken())


class Plain(TestCase):
    def test(self):
        self.useFixture(Broken())


class Rec:
    def __init__(self):
        self.outcomes = []

    def startTest(self, t): pass
    def stopTest(self, t): pass

    def _add(self, kind, details):
        self.outcomes.append(
            (kind, {k: b"".join(v.iter_bytes()).decode("utf8", "replace")
                    for k, v in (details or {}).items()}))

    def addError(self, t, err=None, details=None): self._add("error", details)
    def addExpectedFailure(self, t, err=None, details=None): self._add("xfail", details)


def tracebacks_with(details, needle):
    return [k for k, v in details.items()
            if k.startswith("traceback") and v.lstrip().startswith("Traceback")
            and v.splitlines()[-1].startswith(("ValueError", "KeyError"))
            and needle in v.splitlines()[-1]]


bad = 0
for cls in (Plain, T):
    r = Rec()
    cls("test").run(r)
    (kind, details), = r.outcomes
    print("program  :", cls.__name__)
    print("demanded : one traceback detail per constituent of the MultipleExceptions")
    print("           (ValueError DATABASE-UNREACHABLE, KeyError CLEANUP-ALSO-FAILED)")
    print("happened :", kind, sorted(details))
    for needle in ("DATABASE-UNREACHABLE", "CLEANUP-ALSO-FAILED"):
        found = tracebacks_with(details, needle)
        print("           traceback detail for %s: %s" % (needle, found or "NONE"))
        if not found:
            bad = 1
    if cls is T:
        print("           the only traceback detail is:")
        print("           " + details.get("traceback", "").strip()[-230:])
    print()
if bad:
    print("VIOLATION: constituents of a MultipleExceptions raised in a test "
          "decorated with @expectedFailure have no traceback detail")
sys.exit(bad)
