"""C05 violation 5: the bytes delivered for a fixture's detail are those the
content yielded when the gather_details cleanup ran (before fixture.cleanUp
and before earlier-registered cleanups), not those it yields at reporting
time."""
import sys
import fixtures
from testtools import TestCase
from testtools.content import Content
from testtools.content_type import UTF8_TEXT

LOG = []          # lives as long as the process: still readable at reporting time


class Server(fixtures.Fixture):
    def _setUp(self):
        LOG.append(b"started\n")
        self.addDetail("server-log", Content(UTF8_TEXT, lambda: list(LOG)))
        self.addCleanup(LOG.append, b"shutdown: 3 requests were still pending!\n")


class T(TestCase):
    def test(self):
        self.addCleanup(LOG.append, b"written by an earlier-registered test cleanup\n")
        self.useFixture(Server())
        self.addDetail("same-log-via-addDetail", Content(UTF8_TEXT, lambda: list(LOG)))
        self.fail("boom")


class Rec:
    def startTest(self, t): pass
    def stopTest(self, t): pass

    def addFailure(self, t, err=None, details=None):
        # reporting time
        self.yielded_now = b"".join(LOG)
        self.delivered = {k: b"".join(v.iter_bytes()) for k, v in details.items()}


r = Rec()
T("test").run(r)
print("demanded : the bytes delivered are those the content yields at reporting time:")
print("           %r" % r.yielded_now)
print("happened : addDetail detail  -> %r" % r.delivered["same-log-via-addDetail"])
print("           fixture's detail  -> %r" % r.delivered["server-log"])
if r.delivered["server-log"] != r.yielded_now:
    print("VIOLATION: the fixture's detail delivers stale bytes (snapshot taken by "
          "gather_details before fixture.cleanUp)")
    sys.exit(1)
