"""C04 violation 5: the stop flag that ExtendedToOriginalDecorator keeps for
targets without stop()/shouldStop is never cleared by startTestRun(), so in a
second run shouldStop is True *before* the first outcome and the suite
dispatches nothing.

(For targets that have their own shouldStop the adapter delegates; testtools'
TestResult and ExtendedToStreamDecorator both clear shouldStop in
startTestRun().  Only the adapter-owned `_shouldStop` survives the boundary.)
"""
import sys, threading, unittest
from testtools import (ExtendedToOriginalDecorator, MultiTestResult,
                       ThreadsafeForwardingResult)
from testtools.testresult.doubles import TwistedTestResult


class Failing(unittest.TestCase):
    def test_fail(self):
        self.fail("x")

ran = []
class Passing(unittest.TestCase):
    def test_pass(self):
        ran.append(self.id())

violations = 0
for make in (lambda: ExtendedToOriginalDecorator(TwistedTestResult()),
             lambda: MultiTestResult(TwistedTestResult()),
             lambda: ThreadsafeForwardingResult(TwistedTestResult(), threading.Semaphore(1))):
    del ran[:]
    result = make()
    result.failfast = True
    # run 1: one failure, failfast stops the run (correct)
    result.startTestRun()
    unittest.TestSuite([Failing("test_fail"), Passing("test_pass")]).run(result)
    result.stopTestRun()
    after_run1 = result.shouldStop
    # run 2: no outcome reported yet
    result.startTestRun()
    at_start_of_run2 = result.shouldStop
    unittest.TestSuite([Passing("test_pass")]).run(result)
    result.stopTestRun()
    print("%-28s run1 shouldStop=%s | run2 shouldStop before any outcome=%s, tests dispatched in run2=%d"
          % (type(result).__name__, after_run1, at_start_of_run2, len(ran)))
    if at_start_of_run2 or not ran:
        violations += 1

print("DEMANDED: after startTestRun shouldStop is False until the first "
      "error/failure/unexpected success of that run; the passing test of run 2 is dispatched")
if violations:
    print("VIOLATION in %d of 3 stacks" % violations)
    sys.exit(1)
print("no violation observed")
