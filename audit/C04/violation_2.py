"""C04 violation 2: MultiTestResult and ThreadsafeForwardingResult report
wasSuccessful() True although failures were reported to them (sub-test
failures of a real unittest.TestCase).

Both classes subclass unittest.TestResult and therefore expose addSubTest(),
so unittest.TestCase reports each failing `with self.subTest():` block through
result.addSubTest(test, subtest, err).  Neither class overrides addSubTest:
the inherited method appends to the *wrapper's own* .failures/.errors lists,
nothing is forwarded to the wrapped result(s), and wasSuccessful() is answered
from the wrapped result(s) only.
"""
import io, sys, threading, unittest
from testtools import (ConcurrentTestSuite, MultiTestResult, TestResult,
                       TextTestResult, ThreadsafeForwardingResult)
from testtools.testsuite import iterate_tests


class Sub(unittest.TestCase):
    def test_values(self):
        for i in range(3):
            with self.subTest(i=i):
                self.assertEqual(i, 0)          # fails for i = 1, 2

    def test_error(self):
        with self.subTest("boom"):
            raise RuntimeError("an error, not a failure")


def suite():
    return unittest.TestSuite([Sub("test_values"), Sub("test_error")])


violations = 0

# reference: the plain results get it right
ref = TestResult(); ref.startTestRun(); suite().run(ref); ref.stopTestRun()
print("TestResult alone            : wasSuccessful() =", ref.wasSuccessful(),
      "failures=%d errors=%d" % (len(ref.failures), len(ref.errors)))

# 1. MultiTestResult
a, b = TestResult(), TextTestResult(io.StringIO())
multi = MultiTestResult(a, b)
multi.startTestRun(); suite().run(multi); multi.stopTestRun()
print("MultiTestResult(a, b)       : wasSuccessful() =", multi.wasSuccessful(),
      "| own failures=%d errors=%d" % (len(multi.failures), len(multi.errors)),
      "| a: failures=%d errors=%d" % (len(a.failures), len(a.errors)))
print("   TextTestResult summary   :", b.stream.getvalue().splitlines()[-2:])
if multi.wasSuccessful():
    violations += 1

# 2. ThreadsafeForwardingResult
target = TestResult()
tfr = ThreadsafeForwardingResult(target, threading.Semaphore(1))
tfr.startTestRun(); suite().run(tfr); tfr.stopTestRun()
print("ThreadsafeForwardingResult  : wasSuccessful() =", tfr.wasSuccessful(),
      "| own failures=%d errors=%d" % (len(tfr.failures), len(tfr.errors)),
      "| target testsRun=%d failures=%d" % (target.testsRun, len(target.failures)))
if tfr.wasSuccessful():
    violations += 1

# 3. the same through ConcurrentTestSuite + TextTestResult (as a runner would)
text = TextTestResult(io.StringIO())
text.startTestRun()
ConcurrentTestSuite(suite(), lambda s: list(iterate_tests(s))).run(text)
text.stopTestRun()
print("ConcurrentTestSuite -> Text : wasSuccessful() =", text.wasSuccessful(),
      "| summary", text.stream.getvalue().splitlines()[-2:])
if text.wasSuccessful():
    violations += 1

print()
print("DEMANDED: wasSuccessful() False (2 failures and 1 error were reported "
      "since startTestRun), summary FAILED (failures=3)")
if violations:
    print("VIOLATION: %d of 3 set-ups answered wasSuccessful() == True / OK" % violations)
    sys.exit(1)
print("no violation observed")
