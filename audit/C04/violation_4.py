"""C04 violation 4: testtools.run takes the verdict from whatever test.run()
*returns* instead of from the result it created.

TestToolsTestRunner.run() does `return test.run(result)` and
TestProgram.runTests() then calls `.wasSuccessful()` on that return value.
testtools' own suites ConcurrentTestSuite.run() and FixtureSuite.run() return
None, so when such a suite is the top-level test (module load_tests hook, as
with unittest.main()-style use `testtools.run.TestProgram(module=...)`), the
run ends in AttributeError: exit status 1 + traceback even though the summary
says OK and result.wasSuccessful() is True.
"""
import io, os, sys, tempfile, textwrap, subprocess

here = os.path.dirname(os.path.abspath(__file__))
d = tempfile.mkdtemp()
with open(os.path.join(d, "c04_conc_mod.py"), "w") as f:
    f.write(textwrap.dedent('''
        import testtools
        from testtools import ConcurrentTestSuite
        from testtools.testsuite import iterate_tests

        class T(testtools.TestCase):
            def test_one(self): pass
            def test_two(self): pass

        def load_tests(loader, tests, pattern):
            # run this module's tests concurrently, one thread per test
            return ConcurrentTestSuite(tests, lambda s: list(iterate_tests(s)))

        if __name__ == "__main__":
            import sys
            from testtools.run import TestProgram
            TestProgram(module="__main__", argv=sys.argv[:1], stdout=sys.stdout)
    '''))
env = dict(os.environ, PYTHONPATH=here + os.pathsep + d)
p = subprocess.run([sys.executable, os.path.join(d, "c04_conc_mod.py")],
                   cwd=d, env=env, capture_output=True, text=True)
print("stdout:", p.stdout.splitlines()[-2:])
print("stderr:", p.stderr.strip().splitlines()[-1:])
print("exit status:", p.returncode)
print("DEMANDED: both tests pass, summary OK => exit status 0")
if p.stdout.rstrip().endswith("OK") and p.returncode != 0:
    print("VIOLATION: summary OK but exit status %d" % p.returncode)
    sys.exit(1)
print("no violation observed")
