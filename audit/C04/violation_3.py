"""C04 violation 3: a reported failure is lost (wasSuccessful() stays True,
TextTestResult prints OK) when its text cannot be encoded/decoded, and
testtools.run then exits non-zero underneath an "OK" summary.

TestResult.addFailure/addError render the traceback / details *inside* the
expression that records the outcome:
    self.failures.append((test, self._err_details_to_string(test, err, details)))
If rendering raises (a str with a lone surrogate - e.g. an os.fsdecode()d file
name - in the assertion message, or a text detail whose bytes do not decode),
nothing is appended.  The exception then aborts the whole run.
"""
import io, os, subprocess, sys, tempfile, textwrap, unittest
import testtools
from testtools import TestResult, TextTestResult

NAME = os.fsdecode(b"caf\xe9.txt")          # 'caf\udce9.txt', a legal str

class T(testtools.TestCase):
    def test_listing(self):
        self.assertTrue(os.path.exists(NAME), "missing file %s" % NAME)   # fails

class U(unittest.TestCase):
    def test_listing(self):
        self.assertTrue(os.path.exists(NAME), "missing file %s" % NAME)   # fails

violations = 0
for case in (T("test_listing"), U("test_listing")):
    result = TextTestResult(io.StringIO(), failfast=True)
    result.startTestRun()
    raised = None
    try:
        case.run(result)
    except Exception as e:
        raised = e
    result.stopTestRun()
    print("%-28s add* raised: %s" % (type(case).__mro__[1].__module__ + ".TestCase", type(raised).__name__))
    print("   failures=%d errors=%d wasSuccessful()=%s shouldStop=%s summary=%r" % (
        len(result.failures), len(result.errors), result.wasSuccessful(),
        result.shouldStop, result.stream.getvalue().splitlines()[-1]))
    if result.wasSuccessful():
        violations += 1

# and through the command line runner
d = tempfile.mkdtemp()
with open(os.path.join(d, "c04_surrogate_mod.py"), "w") as f:
    f.write(textwrap.dedent('''
        import os, testtools
        class T(testtools.TestCase):
            def test_a_listing(self):
                name = os.fsdecode(b"caf\\xe9.txt")
                self.assertTrue(os.path.exists(name), "missing file %s" % name)
            def test_b_other(self):
                pass
    '''))
here = os.path.dirname(os.path.abspath(__file__))
env = dict(os.environ, PYTHONPATH=here + os.pathsep + d)
p = subprocess.run([sys.executable, "-m", "testtools.run", "c04_surrogate_mod"],
                   cwd=d, env=env, capture_output=True, text=True)
print("testtools.run stdout:", p.stdout.splitlines()[-2:], "exit status:", p.returncode)
print("testtools.run stderr (last line):", p.stderr.strip().splitlines()[-1:])
if "OK" in p.stdout.splitlines()[-1:] and p.returncode != 0:
    violations += 1

print()
print("DEMANDED: the failure handed to addFailure() makes wasSuccessful() False, "
      "the summary FAILED (failures=1), exit status 1 - all three in agreement")
if violations:
    print("VIOLATION: failure reported but verdict True / summary OK; "
          "testtools.run printed OK and exited non-zero")
    sys.exit(1)
print("no violation observed")
