"""C04 violation 1: exit status of testtools.run disagrees with the summary /
wasSuccessful() when a testtools.TestCase raises SystemExit(0).

A test (e.g. one exercising an argparse CLI: parser.parse_args(['--help'])
calls sys.exit(0)) raises SystemExit(0).  RunTest reports it with addError
(last_resort) and then re-raises it; TestToolsTestRunner.run prints the
summary in its finally block ("FAILED (failures=1)"), and the SystemExit(0)
then travels on to the interpreter: the process exits with status 0.
"""
import os, subprocess, sys, tempfile, textwrap

here = os.path.dirname(os.path.abspath(__file__))
d = tempfile.mkdtemp()
with open(os.path.join(d, "c04_sysexit_mod.py"), "w") as f:
    f.write(textwrap.dedent('''
        import argparse
        import testtools

        class CliTest(testtools.TestCase):
            def test_a_help(self):
                # argparse prints the help and calls sys.exit(0)
                argparse.ArgumentParser(prog="tool").parse_args(["--help"])
            def test_b_never_run(self):
                self.fail("a second, failing test")
    '''))
env = dict(os.environ, PYTHONPATH=here + os.pathsep + d)
p = subprocess.run([sys.executable, "-m", "testtools.run", "c04_sysexit_mod"],
                   cwd=d, env=env, capture_output=True, text=True)
print(p.stdout)
summary_failed = "FAILED (" in p.stdout
print("summary says FAILED:", summary_failed)
print("process exit status:", p.returncode)
print("DEMANDED: exit status non-zero exactly when the summary says FAILED "
      "(wasSuccessful() false)")
if summary_failed and p.returncode == 0:
    print("VIOLATION: an error was reported, the summary says FAILED, "
          "but testtools.run exited with status 0")
    sys.exit(1)
print("no violation observed")
