"""C17 violation: testtools.testresult.doubles.ExtendedTestResult (a public
TestResult implementation with tags()/current_tags) still pops the run-level
TagContext on the startTest-less addSkip + stopTest pair that unittest in
Python 3.12.1 emits for a skipped stdlib test.

History: startTestRun, tags({'run'}, {}), addSkip(t), stopTest(t)   [no startTest]
Demanded: current_tags == {'run'} afterwards (run-level change persists).
"""
import sys
import unittest
import warnings

from testtools import ExtendedToOriginalDecorator
from testtools.testresult.doubles import ExtendedTestResult

warnings.simplefilter("ignore")
failed = False


class Skipped(unittest.TestCase):
    @unittest.skip("not today")
    def test_skipped(self):
        pass


# A: the double itself, driven by a real stdlib skipped test.
result = ExtendedTestResult()
result.startTestRun()
result.tags({"run"}, set())
Skipped("test_skipped").run(result)
print("events:", [e[0] for e in result._events])
print("A demanded : current_tags == {'run'}")
try:
    got = result.current_tags
    print("A happened : current_tags ==", got)
    failed |= got != {"run"}
except Exception as e:
    print("A happened : current_tags raised %s: %s" % (type(e).__name__, e))
    failed = True

# B: behind ExtendedToOriginalDecorator the error is swallowed by getattr()
# and current_tags silently becomes the adapter's own (empty) context; the
# next tags() call then explodes.
inner = ExtendedTestResult()
adapter = ExtendedToOriginalDecorator(inner)
adapter.startTestRun()
adapter.tags({"run"}, set())
Skipped("test_skipped").run(adapter)
print("B demanded : current_tags == {'run'}")
got = adapter.current_tags
print("B happened : current_tags ==", got)
failed |= got != {"run"}
try:
    adapter.tags({"more"}, set())
    print("B tags() after the skip: ok ->", adapter.current_tags)
except Exception as e:
    print("B tags() after the skip raised %s: %s" % (type(e).__name__, e))
    failed = True

sys.exit(1 if failed else 0)
