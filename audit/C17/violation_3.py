"""C17 (borderline, see REPORT): ExtendedToStreamDecorator has no tag context
until startTestRun() has run.  startTest()/add*()/wasSuccessful() start the
run implicitly ("if not self._started: self.startTestRun()"), tags() and
current_tags do not: a history whose first event is a run-level tags() - or
PlaceHolder.run(), which calls result.tags() before result.startTest() -
raises AttributeError, on the decorator itself and on every stack that has it
inside (MultiTestResult, ExtendedToOriginalDecorator, TestResultDecorator).
Every other implementation (TestResult, MultiTestResult, TFR,
ExtendedToOriginalDecorator, doubles) accepts the same history.
"""
import sys

from testtools import (
    ExtendedToStreamDecorator,
    MultiTestResult,
    PlaceHolder,
    StreamToExtendedDecorator,
    TestResult,
)

failed = False


def attempt(label, fn, want):
    global failed
    try:
        got = fn()
    except Exception as e:
        print("%-45s demanded %r ; raised %s: %s" % (label, want, type(e).__name__, e))
        failed = True
        return
    ok = got == want
    failed |= not ok
    print("%-45s demanded %r ; got %r" % (label, want, got))


def history(result):
    result.tags({"run"}, set())  # run-level change, no explicit startTestRun
    t = PlaceHolder("t")
    result.startTest(t)
    result.addSuccess(t)
    result.stopTest(t)
    return result.current_tags


attempt("TestResult", lambda: history(TestResult()), {"run"})
attempt("MultiTestResult(TestResult)", lambda: history(MultiTestResult(TestResult())), {"run"})
attempt(
    "ExtendedToStreamDecorator",
    lambda: history(ExtendedToStreamDecorator(StreamToExtendedDecorator(TestResult()))),
    {"run"},
)
attempt(
    "MultiTestResult(ExtendedToStreamDecorator)",
    lambda: history(
        MultiTestResult(ExtendedToStreamDecorator(StreamToExtendedDecorator(TestResult())))
    ),
    {"run"},
)


def placeholder(result):
    PlaceHolder("p", tags={"x"}).run(result)
    return result.current_tags


attempt("PlaceHolder.run(TestResult)", lambda: placeholder(TestResult()), set())
attempt(
    "PlaceHolder.run(ExtendedToStreamDecorator)",
    lambda: placeholder(ExtendedToStreamDecorator(StreamToExtendedDecorator(TestResult()))),
    set(),
)
sys.exit(1 if failed else 0)
