"""C17 violation: ThreadsafeForwardingResult loses a test's test-local tags
for the second (and later) outcome of the same test.

History (inside the quantified domain: startTestRun, startTest, tags inside the
test, outcomes (plural), stopTest):

    startTestRun
    startTest(t); tags({'local'}, {})      # test-local change
    addFailure(t)                          # outcome 1
    addError(t)                            # outcome 2 (same test)
    stopTest(t)

This is exactly what stdlib unittest (Python 3.12.1) emits for a test whose
body fails and whose tearDown raises: startTest, addFailure, addError,
stopTest.  Part B reproduces it with a real unittest.TestCase and a
testtools Tagger in front of the ThreadsafeForwardingResult.
"""
import sys
import threading
import unittest
import warnings

from testtools import PlaceHolder, Tagger, TestResult, ThreadsafeForwardingResult

warnings.simplefilter("ignore")


class Observer(TestResult):
    """Wrapped result: records the tags current at each outcome."""

    def __init__(self):
        super().__init__()
        self.seen = []

    def addFailure(self, test, err=None, details=None):
        self.seen.append(("addFailure", test.id(), set(self.current_tags)))

    def addError(self, test, err=None, details=None):
        self.seen.append(("addError", test.id(), set(self.current_tags)))


failed = False

# ---- Part A: abstract history ------------------------------------------
target = Observer()
tfr = ThreadsafeForwardingResult(target, threading.Semaphore(1))
tfr.startTestRun()
t = PlaceHolder("t")
tfr.startTest(t)
tfr.tags({"local"}, set())
reporter = []
reporter.append(set(tfr.current_tags))
tfr.addFailure(t, details={})
reporter.append(set(tfr.current_tags))
tfr.addError(t, details={})
tfr.stopTest(t)
print("Part A (abstract history)")
for (name, tid, observed), want in zip(target.seen, reporter):
    ok = observed == want
    failed |= not ok
    print(
        "  %-10s reporter current_tags at outcome = %r ; wrapped result observed %r  %s"
        % (name, want, observed, "ok" if ok else "<-- VIOLATION")
    )


# ---- Part B: real stdlib test behind Tagger -> TFR ------------------------
class Bad(unittest.TestCase):
    def test_fail(self):
        self.fail("body")

    def tearDown(self):
        raise RuntimeError("teardown")


target = Observer()
tfr = ThreadsafeForwardingResult(target, threading.Semaphore(1))
tagger = Tagger(tfr, {"worker-1"}, set())
tagger.startTestRun()
Bad("test_fail").run(tagger)
tagger.stopTestRun()
print("Part B (unittest.TestCase with failing body + failing tearDown, Tagger -> TFR)")
for name, tid, observed in target.seen:
    ok = observed == {"worker-1"}
    failed |= not ok
    print(
        "  %-10s demanded {'worker-1'} (reporter's tags at the outcome); observed %r  %s"
        % (name, observed, "ok" if ok else "<-- VIOLATION")
    )

sys.exit(1 if failed else 0)
