"""C02 violation: after the test, attributes changed with TestCase.patch() do
not have their pre-test value / are not absent again when the attribute was a
staticmethod, a classmethod, or was only inherited (from a base class or from
the instance's class)."""
import sys
from testtools import TestCase
from testtools.testresult.doubles import ExtendedTestResult


class Base:
    x = 0

    @staticmethod
    def sm(a):
        return ("sm", a)

    @classmethod
    def cm(cls):
        return cls.__name__


class Sub(Base):
    pass


inst = Base()


def snapshot():
    return {
        "Base.__dict__['sm']": Base.__dict__.get("sm", "ABSENT"),
        "Base.__dict__['cm']": Base.__dict__.get("cm", "ABSENT"),
        "Sub.__dict__['x']": Sub.__dict__.get("x", "ABSENT"),
        "vars(inst)['x']": vars(inst).get("x", "ABSENT"),
    }


def behaviour():
    out = {}
    try:
        out["Base().sm(1)"] = Base().sm(1)
    except Exception as e:
        out["Base().sm(1)"] = "raises %s: %s" % (type(e).__name__, e)
    out["Sub.cm()"] = Sub.cm()
    Base.x = 42            # a later change of the base attribute ...
    out["Sub.x after Base.x = 42"] = Sub.x      # ... must be visible here
    out["inst.x after Base.x = 42"] = inst.x
    Base.x = 0
    return out


class T(TestCase):
    def test(self):
        self.patch(Base, "sm", lambda a: "fake")      # existing attribute
        self.patch(Base, "cm", lambda: "fake")        # existing attribute
        self.patch(Sub, "x", 5)                        # not an attribute of Sub itself
        self.patch(inst, "x", 7)                       # not an attribute of inst itself


before_state, before_beh = snapshot(), behaviour()
r = ExtendedTestResult()
T("test").run(r)
after_state, after_beh = snapshot(), behaviour()
print("outcome:", [e[0] for e in r._events])
bad = False
for k in before_state:
    same = before_state[k] is after_state[k]
    bad |= not same
    print("%-22s pre-test %-50r after %r%s" % (k, before_state[k], after_state[k], "" if same else "   <-- CHANGED"))
for k in before_beh:
    same = before_beh[k] == after_beh[k]
    bad |= not same
    print("%-26s pre-test %-14r after %r%s" % (k, before_beh[k], after_beh[k], "" if same else "   <-- CHANGED"))
if bad:
    print("VIOLATION: patched attributes do not have their pre-test value / are not absent again")
    sys.exit(1)
print("no violation")
