"""C02, statement as written: "For every test, setUp runs first".  For a test
skipped with a skip decorator (explicitly in the quantified domain: "... force_failure
and skip decorators") setUp never runs (nor do tearDown or cleanups)."""
import sys
import unittest
import testtools
from testtools import TestCase
from testtools.testresult.doubles import ExtendedTestResult

log = []


class T(TestCase):
    def setUp(self):
        log.append("setUp")
        super().setUp()
        self.addCleanup(log.append, "cleanup")

    @testtools.skip("why")
    def test_tt(self):
        log.append("test")

    @unittest.skip("why")
    def test_ut(self):
        log.append("test")

    @testtools.skipIf(True, "why")
    def test_if(self):
        log.append("test")

    def tearDown(self):
        log.append("tearDown")
        super().tearDown()


bad = False
for name in ("test_tt", "test_ut", "test_if"):
    del log[:]
    r = ExtendedTestResult()
    T(name).run(r)
    print(name, "demanded: log starts with 'setUp' (then cleanup runs); happened:", log, [e[0] for e in r._events])
    if log[:1] != ["setUp"]:
        bad = True
if bad:
    print("VIOLATION (of the statement as worded; runtest.py does this on purpose)")
    sys.exit(1)
print("no violation")
