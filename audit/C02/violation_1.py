"""C02 violation: a cleanup registered with a keyword argument named ``fn``
aborts the cleanup phase: that cleanup and every cleanup registered before it
never run and stay registered (and, when setUp failed, the TypeError escapes
run() without any outcome being reported)."""
import sys
from testtools import TestCase
from testtools.testresult.doubles import ExtendedTestResult

failures = []


def remove_file(fn=None):          # a perfectly ordinary cleanup signature
    log.append("remove_file(fn=%r)" % (fn,))


# ---- scenario (a): setUp, test and tearDown all return normally -------------
log = []


class A(TestCase):
    def setUp(self):
        super().setUp()
        self.addCleanup(log.append, "first")

    def test(self):
        self.addCleanup(remove_file, fn="/tmp/x")
        self.addCleanup(log.append, "third")


t = A("test")
r = ExtendedTestResult()
exc = None
try:
    t.run(r)
except BaseException as e:  # noqa
    exc = e
print("(a) demanded cleanup calls: ['third', \"remove_file(fn='/tmp/x')\", 'first'], nothing left registered")
print("(a) happened              :", log, "| left registered:", len(t._cleanups),
      "| events:", [e[0] for e in r._events], "| escaped:", repr(exc))
if log != ["third", "remove_file(fn='/tmp/x')", "first"] or t._cleanups:
    failures.append("a")

# ---- scenario (b): setUp raises after registering the cleanups ---------------
log = []


class B(TestCase):
    def setUp(self):
        super().setUp()
        self.addCleanup(log.append, "first")
        self.addCleanup(remove_file, fn="/tmp/x")
        self.addCleanup(log.append, "third")
        raise RuntimeError("setUp failed")

    def test(self):
        pass


t = B("test")
r = ExtendedTestResult()
exc = None
try:
    t.run(r)
except BaseException as e:  # noqa
    exc = e
print("(b) demanded cleanup calls: ['third', \"remove_file(fn='/tmp/x')\", 'first'], nothing left registered, addError reported")
print("(b) happened              :", log, "| left registered:", len(t._cleanups),
      "| events:", [e[0] for e in r._events], "| escaped:", repr(exc))
if log != ["third", "remove_file(fn='/tmp/x')", "first"] or t._cleanups or exc is not None:
    failures.append("b")

if failures:
    print("VIOLATION in scenario(s):", failures)
    sys.exit(1)
print("no violation")
