"""C19 violation 2 (depends on how "placed by their first test" is read):
sorted_tests places a custom suite by the first test it had BEFORE its own
sort_tests() ran, so the returned suite is not in the order that sorted_tests
itself defines: the custom suite's first test is 'a' yet it sits after 'm',
and sorting the result a second time reorders it.
"""
import sys, unittest
from testtools import PlaceHolder
from testtools.testsuite import FixtureSuite, iterate_tests, sorted_tests


class Fx:
    def setUp(self): pass
    def cleanUp(self): pass


def first_id(item):
    for t in iterate_tests(item):
        return t.id()


tree = unittest.TestSuite(
    [PlaceHolder("m"), FixtureSuite(Fx(), [PlaceHolder("z"), PlaceHolder("a")])])
once = sorted_tests(tree)
top = [(type(i).__name__, first_id(i)) for i in once]
leaf1 = [t.id() for t in iterate_tests(once)]
twice = sorted_tests(once)
leaf2 = [t.id() for t in iterate_tests(twice)]
print("property demands : top-level items ordered by id, a custom suite placed by its first test")
print("                   i.e. [FixtureSuite(a, z), m]  -> leaves ['a', 'z', 'm']")
print("what happened    : top-level (type, first id) =", top)
print("                   leaves after one sort      =", leaf1)
print("                   leaves after a second sort =", leaf2)
keys = [k for (_, k) in top]
bad = keys != sorted(keys) or leaf1 != leaf2
sys.exit(1 if bad else 0)
