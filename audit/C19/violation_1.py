"""C19 violation 1: filter_by_ids (and testtools.run discover --load-list) crashes
with TypeError on a FixtureSuite that has been through sorted_tests.

FixtureSuite (testtools/testsuite.py) is a TestSuite subclass WITH sort_tests and
WITHOUT filter_by_ids.  FixtureSuite.sort_tests() replaces self._tests (a list) by
a unittest.TestSuite object; filter_by_ids then does `suite._tests[:] = filtered`.
"""
import io, os, sys, tempfile, textwrap, traceback, unittest
from testtools import PlaceHolder, run
from testtools.testsuite import FixtureSuite, filter_by_ids, iterate_tests, sorted_tests

failed = False


class Fx:
    def setUp(self): pass
    def cleanUp(self): pass


# ---- part A: the library functions ------------------------------------
tree = unittest.TestSuite(
    [PlaceHolder("c"), FixtureSuite(Fx(), [PlaceHolder("b"), PlaceHolder("a")])])
s = sorted_tests(tree)
print("sorted ids          :", [t.id() for t in iterate_tests(s)])
print("property demands    : filter_by_ids(s, {'a','c'}) leaves ids ['a', 'c']")
try:
    f = filter_by_ids(s, {"a", "c"})
    got = [t.id() for t in iterate_tests(f)]
    print("what happened       :", got)
    failed |= got != ["a", "c"]
except Exception as e:
    print("what happened       : %s: %s" % (type(e).__name__, e))
    failed = True

# control: without the sort the very same tree filters fine
tree = unittest.TestSuite(
    [PlaceHolder("c"), FixtureSuite(Fx(), [PlaceHolder("b"), PlaceHolder("a")])])
print("control (no sort)   :", [t.id() for t in iterate_tests(filter_by_ids(tree, {"a", "c"}))])

# ---- part B: testtools.run discover --load-list -----------------------
d = tempfile.mkdtemp()
with open(os.path.join(d, "test_c19fx.py"), "w") as fh:
    fh.write(textwrap.dedent('''
        import unittest
        from testtools.testsuite import FixtureSuite
        RAN = []
        class Fx:
            def setUp(self): pass
            def cleanUp(self): pass
        class T(unittest.TestCase):
            def test_b(self): RAN.append(self.id())
            def test_a(self): RAN.append(self.id())
        def load_tests(loader, tests, pattern):
            return FixtureSuite(Fx(), [T("test_b"), T("test_a")])
    '''))
out = io.StringIO()
run.TestProgram(argv=["prog", "discover", "-s", d, "-t", d, "--list"], stdout=out, exit=False)
print("--list prints       :", out.getvalue().split())
lst = os.path.join(d, "ids.txt")
with open(lst, "w") as fh:
    fh.write("test_c19fx.T.test_a\n")
print("property demands    : --load-list runs exactly ['test_c19fx.T.test_a']")
try:
    run.TestProgram(argv=["prog", "discover", "-s", d, "-t", d, "--load-list", lst],
                    stdout=io.StringIO(), exit=False)
    ran = sys.modules["test_c19fx"].RAN
    print("what happened       : ran", ran)
    failed |= ran != ["test_c19fx.T.test_a"]
except Exception as e:
    print("what happened       : %s: %s (nothing was run)" % (type(e).__name__, e))
    failed = True

sys.exit(1 if failed else 0)
