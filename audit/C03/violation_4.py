"""C03 violation 4: an ERROR reported through a user-inserted handler is
downgraded to SKIP by a later SkipTest, when the handler object has a liberal
__eq__ (RunTest._select_exception tests `handler not in benign`, i.e. `==`,
where identity is meant).

Property: "Whenever any stage raised a failure or an error, the single
reported outcome is one that makes the run unsuccessful ... what a later
stage raises (a skip ...) never downgrades it".
"""
import sys
from unittest import SkipTest
from testtools import TestCase
from testtools.testresult.doubles import ExtendedTestResult


class BackendError(Exception):
    pass


class AnyCallable:
    """A handler; compares equal to every callable (e.g. a test spy)."""

    def __eq__(self, other):
        return callable(other)

    __hash__ = object.__hash__

    def __call__(self, case, result, exc):
        result.addError(case, details=case.getDetails())


class T(TestCase):
    def setUp(self):
        super().setUp()
        self.exception_handlers.insert(0, (BackendError, AnyCallable()))

    def test_it(self):
        raise BackendError("backend exploded")   # maps to addError

    def tearDown(self):
        try:
            self.skipTest("later skip")
        finally:
            super().tearDown()


res = ExtendedTestResult()
T("test_it").run(res)
outs = [e[0] for e in res._events if e[0].startswith("add")]
print("demanded : ['addError'] (BackendError's handler reports an error; later skip must not mask it)")
print("reported :", outs, " wasSuccessful() =", res.wasSuccessful())

class T1(T):
    def tearDown(self):
        TestCase.tearDown(self)
r1 = ExtendedTestResult(); T1("test_it").run(r1)
print("control (BackendError alone):", [e[0] for e in r1._events if e[0].startswith("add")])
if outs != ["addError"]:
    print("VIOLATION: error downgraded to", outs)
    sys.exit(1)
print("no violation")
