"""C03 violation 5: expectThat (and assertThat) treat a Mismatch object that
is falsy (defines __len__/__bool__) as "matched"; the test is reported as a
success although an expectThat mismatched.

Property: "A test is reported as a success only if no stage raised, no
expectThat mismatched and force_failure is unset".
Matcher protocol (testtools/matchers/_impl.py): match() returns "None if this
matcher matches something, a Mismatch otherwise".
"""
import sys
from testtools import TestCase
from testtools.matchers import Mismatch, MatchesAll
from testtools.testresult.doubles import ExtendedTestResult


class Problems(Mismatch):
    """A mismatch that also behaves as a collection of extra notes."""

    def __init__(self, description, notes=()):
        super().__init__(description)
        self.notes = list(notes)

    def __len__(self):
        return len(self.notes)


class NeverMatches:
    def match(self, matchee):
        return Problems("%r is not acceptable" % (matchee,))  # not None => mismatch

    def __str__(self):
        return "NeverMatches()"


class T(TestCase):
    def test_expect(self):
        self.expectThat(1, NeverMatches())

    def test_expect_wrapped(self):
        # same matcher, wrapped in a combinator that tests `is not None`
        self.expectThat(1, MatchesAll(NeverMatches()))


res = ExtendedTestResult(); T("test_expect").run(res)
outs = [e[0] for e in res._events if e[0].startswith("add")]
res2 = ExtendedTestResult(); T("test_expect_wrapped").run(res2)
outs2 = [e[0] for e in res2._events if e[0].startswith("add")]
print("demanded : ['addFailure'] (matcher.match() returned a Mismatch, i.e. expectThat mismatched)")
print("reported :", outs)
print("control (same matcher inside MatchesAll):", outs2)
if outs == ["addSuccess"]:
    print("VIOLATION: success reported although expectThat mismatched")
    sys.exit(1)
print("no violation")
