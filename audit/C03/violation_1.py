"""C03 violation 1: a failure/error raised by one stage is downgraded by an
_UnexpectedSuccess raised by a later stage; on 2.7-style results and on a
StreamResult behind ExtendedToStreamDecorator the run is then SUCCESSFUL.

Property: "Whenever any stage raised a failure or an error, the single
reported outcome is one that makes the run unsuccessful."
"""
import sys
from testtools import TestCase, ExtendedToStreamDecorator, StreamResult
from testtools.testresult.doubles import Python27TestResult


class T(TestCase):
    def test_it(self):
        raise AssertionError("genuine failure in the test method")

    def tearDown(self):
        try:
            # public API; predicate passes -> raises _UnexpectedSuccess
            self.expectFailure("tearDown check is expected to fail", lambda: None)
        finally:
            super().tearDown()


bad = 0
for name, mk in [
    ("StreamResult behind ExtendedToStreamDecorator",
     lambda: ExtendedToStreamDecorator(StreamResult())),
    ("2.7-style result (Python27TestResult double)", Python27TestResult),
]:
    res = mk()
    res.startTestRun()
    T("test_it").run(res)
    res.stopTestRun()
    ok = res.wasSuccessful()
    if hasattr(res, "_events"):
        reported = [e[0] for e in res._events if e[0].startswith("add")]
    else:
        reported = {
            "failures": len(res.failures), "errors": len(res.errors),
            "unexpectedSuccesses": len(res.unexpectedSuccesses)}
    print(name)
    print("  demanded : outcome that makes the run unsuccessful (test method raised AssertionError)")
    print("  reported :", reported, "-> wasSuccessful() =", ok)
    if ok:
        bad += 1
if bad:
    print("VIOLATION: failure masked by a later unexpected success on %d result flavour(s)" % bad)
    sys.exit(1)
print("no violation")
