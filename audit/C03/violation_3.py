"""C03 violation 3: a test whose only exception is a skip with a non-str
reason gets NO outcome at all; TypeError escapes from TestCase.run().

Property: "when exactly one exception is raised the outcome is the one its
type maps to (skip, ...)".
TestCase.skipTest docstring: "reason ... must support being cast into a
unicode string for reporting."  (42, None, an exception instance all do.)
"""
import sys
from testtools import TestCase
from testtools.testresult.doubles import ExtendedTestResult

bad = 0
for reason in (42, None, ValueError("db down"), b"bytes"):
    class T(TestCase):
        def test_it(self, reason=reason):
            self.skipTest(reason)

    res = ExtendedTestResult()
    exc = None
    try:
        T("test_it").run(res)
    except Exception as e:
        exc = e
    ev = [e[0] for e in res._events]
    print("skipTest(%r)" % (reason,))
    print("  demanded : ['startTest', 'addSkip', 'stopTest'], nothing propagates")
    print("  happened :", ev, "propagated:", repr(exc))
    if "addSkip" not in ev or exc is not None:
        bad += 1
if bad:
    print("VIOLATION: skip not reported for %d reasons" % bad)
    sys.exit(1)
print("no violation")
