"""C03 violation 2: a failure raised by the test method is downgraded to SKIP
by a later stage raising a subclass of SkipTest for which the user inserted a
handler into exception_handlers (the handler simply adds a detail and
delegates to the stock skip reporting).

Property: "Whenever any stage raised a failure or an error, the single
reported outcome is one that makes the run unsuccessful: what a later stage
raises (a skip, an expected failure) never downgrades it to skip ..."
"""
import sys
from unittest import SkipTest
from testtools import TestCase
from testtools.content import text_content
from testtools.testresult.doubles import ExtendedTestResult


class ResourceGone(SkipTest):
    """subclass of a built-in signal exception"""


def report_resource_gone(case, result, exc):
    case.addDetail("resource", text_content("gone"))
    case._report_skip(case, result, exc)  # same outcome as a stock skip


class T(TestCase):
    def setUp(self):
        super().setUp()
        self.exception_handlers.insert(0, (ResourceGone, report_resource_gone))

    def test_it(self):
        raise AssertionError("genuine failure in the test method")

    def tearDown(self):
        try:
            raise ResourceGone("resource vanished during tearDown")
        finally:
            super().tearDown()


res = ExtendedTestResult()
T("test_it").run(res)
outs = [e[0] for e in res._events if e[0].startswith("add")]
print("demanded : addFailure (or another unsuccessful outcome); test method raised AssertionError")
print("reported :", outs, " wasSuccessful() =", res.wasSuccessful())

# control: identical program without the user handler is reported correctly
class T2(T):
    def setUp(self):
        TestCase.setUp(self)
res2 = ExtendedTestResult()
T2("test_it").run(res2)
print("control (no user handler):", [e[0] for e in res2._events if e[0].startswith("add")])

if outs == ["addSkip"] or res.wasSuccessful():
    print("VIOLATION: failure downgraded to skip")
    sys.exit(1)
print("no violation")
