"""C11 violation 1: StreamTagger / TimestampingStreamResult drop (crash on) a status
call whose owned field is passed positionally.

StreamResult.status(test_id, test_status, test_tags, runnable, file_name,
file_bytes, eof, mime_type, route_code, timestamp) accepts positional
arguments; the class docstring itself uses `result.status(self.id(), 'success')`,
and CopyStreamResult, StreamFailFast and StreamToQueue all forward such calls
correctly.  StreamTagger and TimestampingStreamResult take (*args, **kwargs) but
look for their field only in kwargs, then add it as a keyword on top of the
positional one -> TypeError, nothing is forwarded.
"""
import datetime
import sys

from testtools.testresult.doubles import StreamResult as Sink
from testtools.testresult.real import (
    CopyStreamResult,
    StreamTagger,
    TimestampingStreamResult,
    utc,
)

bad = 0
ts = datetime.datetime(2020, 1, 1, tzinfo=utc)

# reference: CopyStreamResult forwards the very same call fine
ref = Sink()
CopyStreamResult([ref]).status("t1", "success", frozenset({"a"}))
print("CopyStreamResult forwarded:", ref._events)

print()
print("--- StreamTagger([sink], add={'x'}).status('t1', 'success', frozenset({'a'}))")
print("demanded: sink receives exactly one status event with test_tags == {'a', 'x'},")
print("          every other field unchanged")
sink = Sink()
try:
    StreamTagger([sink], add={"x"}).status("t1", "success", frozenset({"a"}))
except TypeError as e:
    print("happened: TypeError:", e)
    bad += 1
print("sink got :", sink._events)
if len(sink._events) != 1:
    bad += 1

print()
print("--- same through a depth-2 tree CopyStreamResult([StreamTagger([sink])]) (no-op tagger)")
sink = Sink()
try:
    CopyStreamResult([StreamTagger([sink])]).status("t1", "success", {"a"})
except TypeError as e:
    print("happened: TypeError:", e)
    bad += 1
print("sink got :", sink._events)

print()
print("--- TimestampingStreamResult(sink).status('t1','success',None,True,None,None,False,None,None, ts)")
print("demanded: sink receives one event, supplied timestamp", ts, "unchanged")
sink = Sink()
try:
    TimestampingStreamResult(sink).status(
        "t1", "success", None, True, None, None, False, None, None, ts
    )
except TypeError as e:
    print("happened: TypeError:", e)
    bad += 1
print("sink got :", sink._events)

print()
if bad:
    print("VIOLATION: status calls were not passed to the targets (%d problems)" % bad)
    sys.exit(1)
print("no violation")
