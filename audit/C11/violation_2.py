"""C11 violation 2: StreamTagger rewrites an (explicitly) empty tag set to None.

test_tags=None means "this event says nothing about tags"; test_tags=set() means
"the test now has no tags" (see _StreamToTestRecord._ensure_key:
`if test_tags is not None: case = case.set("tags", test_tags)`).
StreamTagger.status ends with `kwargs["test_tags"] = test_tags or None`, so

 (a) a StreamTagger with nothing to add and nothing to discard still alters the
     event: set()/frozenset() in -> None out;
 (b) a StreamTagger whose discard removes the last tag delivers None instead of
     the empty set.

Both are changes that are not "tags added and discarded", and they are
observable downstream: a consumer keeps stale tags.
"""
import sys

from testtools.testresult.doubles import StreamResult as Sink
from testtools.testresult.real import StreamTagger, StreamToDict

bad = 0

print("--- (a) no-op tagger, recording sink")
for tags in (set(), frozenset()):
    sink = Sink()
    StreamTagger([sink]).status(test_id="t", test_status="success", test_tags=tags)
    got = sink._events[0].test_tags
    print("supplied test_tags=%r add=None discard=None" % (tags,))
    print("  demanded: target receives an empty tag set (nothing added, nothing discarded)")
    print("  happened: target received test_tags=%r" % (got,))
    if got is None or set(got) != set():
        bad += 1

print()
print("--- (b) discard removes the only tag")
sink = Sink()
StreamTagger([sink], discard={"a"}).status(test_id="t", test_tags=frozenset({"a"}))
got = sink._events[0].test_tags
print("supplied test_tags=frozenset({'a'}) discard={'a'}")
print("  demanded: {'a'} - {'a'} = empty set;  happened: %r" % (got,))
if got is None:
    bad += 1

print()
print("--- downstream consequence (StreamToDict directly vs. behind a no-op StreamTagger)")


def feed(result):
    result.startTestRun()
    result.status(test_id="t", test_status="inprogress", test_tags={"a", "b"})
    result.status(test_id="t", test_status="success", test_tags=set())
    result.stopTestRun()


direct, tagged = [], []
feed(StreamToDict(direct.append))
feed(StreamTagger([StreamToDict(tagged.append)]))
print("direct          : tags =", direct[0]["tags"])
print("via no-op tagger: tags =", tagged[0]["tags"])
if direct[0]["tags"] != tagged[0]["tags"]:
    bad += 1

print()
if bad:
    print("VIOLATION: StreamTagger changed the event beyond adding/discarding tags")
    sys.exit(1)
print("no violation")
