"""C18: "startTestRun/stopTestRun reach exactly the sinks registered for them,
once per run, immediately for a rule added while a run is in progress".

One sink that serves two rules, both added with do_start_stop_run=True, gets
startTestRun/stopTestRun TWICE per run.  When the second rule is added while
the run is in progress the second startTestRun arrives mid-run and wipes what
the sink has already recorded (StreamSummary forgets a failure).
"""
import sys
from testtools import StreamResultRouter, StreamSummary
from testtools.testresult.doubles import StreamResult as Log

bad = False

# (a) both rules added before the run
sink = Log()
router = StreamResultRouter()
router.add_rule(sink, "route_code_prefix", route_prefix="0",
                consume_route=True, do_start_stop_run=True)
router.add_rule(sink, "route_code_prefix", route_prefix="1",
                consume_route=True, do_start_stop_run=True)
router.startTestRun()
router.stopTestRun()
want = [("startTestRun",), ("stopTestRun",)]
print("(a) demanded:", want)
print("(a) happened:", sink._events)
bad |= sink._events != want

# (b) fallback that also has a rule of its own
sink = Log()
router = StreamResultRouter(sink)          # fallback, do_start_stop_run=True
router.add_rule(sink, "test_id", test_id=None, do_start_stop_run=True)
router.startTestRun()
router.stopTestRun()
print("(b) demanded:", want)
print("(b) happened:", sink._events)
bad |= sink._events != want

# (c) second rule added mid-run: the sink is restarted in the middle of the run
summary = StreamSummary()
router = StreamResultRouter()
router.add_rule(summary, "route_code_prefix", route_prefix="0",
                consume_route=True, do_start_stop_run=True)
router.startTestRun()
router.status(test_id="t", test_status="fail", route_code="0")
router.add_rule(summary, "route_code_prefix", route_prefix="1",
                consume_route=True, do_start_stop_run=True)
router.status(test_id="u", test_status="success", route_code="1")
router.stopTestRun()
print("(c) demanded: one startTestRun for the run, so the failure of 't' is "
      "kept: wasSuccessful() False, testsRun 2")
print("(c) happened: wasSuccessful() %r, testsRun %r, errors %r" % (
    summary.wasSuccessful(), summary.testsRun, summary.errors))
bad |= summary.wasSuccessful() or summary.testsRun != 2

sys.exit(1 if bad else 0)
