"""C18: "startTestRun/stopTestRun reach exactly the sinks registered for them,
once per run" - "with and without fallback, with and without do_start_stop_run".

A fallback sink whose truth value is False (here: a sink with a __len__ that
counts the events it has received, so it is empty - falsy - when handed to
the router) is registered with do_start_stop_run=True (the default), receives
status events as the fallback, but never receives startTestRun/stopTestRun.
The same sink attached through add_rule(..., do_start_stop_run=True) does.
"""
import sys
from testtools import StreamResult, StreamResultRouter


class CountingSink(StreamResult):
    def __init__(self):
        self.events = []

    def __len__(self):
        return len(self.events)

    def startTestRun(self):
        self.events.append("startTestRun")

    def stopTestRun(self):
        self.events.append("stopTestRun")

    def status(self, **kwargs):
        self.events.append("status")


fallback = CountingSink()
router = StreamResultRouter(fallback, do_start_stop_run=True)
router.startTestRun()
router.status(test_id="x", test_status="success")
router.stopTestRun()
want = ["startTestRun", "status", "stopTestRun"]
print("fallback demanded:", want)
print("fallback happened:", fallback.events)

rule_sink = CountingSink()
router = StreamResultRouter()
router.add_rule(rule_sink, "test_id", test_id="x", do_start_stop_run=True)
router.startTestRun()
router.status(test_id="x", test_status="success")
router.stopTestRun()
print("same sink via add_rule:", rule_sink.events)

sys.exit(1 if fallback.events != want else 0)
