"""C18: "StreamResultRouter hands every status event to exactly one sink ...
with all other fields unchanged".

StreamResult.status takes its fields positionally or by keyword (the
StreamResult class docstring itself shows result.status(self.id(),
'inprogress')), and every other StreamResult in testtools accepts both.
StreamResultRouter.status is declared as status(self, **kwargs): the same
event given positionally is handed to no sink at all - TypeError - even with a
fallback, and also when it reaches the router through testtools' own
forwarders (CopyStreamResult, StreamTagger, TimestampingStreamResult), which
pass positional arguments on as they got them.
"""
import sys
from testtools import (CopyStreamResult, StreamResultRouter, StreamTagger,
                       TimestampingStreamResult)
from testtools.testresult.doubles import StreamResult as Log

bad = False
print("demanded: the event ('foo', 'success') arrives at the fallback once")
for name, wrap in [
    ("router.status('foo', 'success')", lambda r: r),
    ("CopyStreamResult([router])", lambda r: CopyStreamResult([r])),
    ("StreamTagger([router], add=['t'])", lambda r: StreamTagger([r], add=["t"])),
    ("TimestampingStreamResult(router)", TimestampingStreamResult),
]:
    fallback = Log()
    router = StreamResultRouter(fallback)
    try:
        wrap(router).status("foo", "success")
    except TypeError as e:
        print("happened [%s]: TypeError: %s; fallback saw %r"
              % (name, e, fallback._events))
        bad = True
    else:
        print("happened [%s]: delivered %r" % (name, fallback._events))
        bad |= len(fallback._events) != 1

# control: the very same event by keyword is delivered
fallback = Log()
StreamResultRouter(fallback).status(test_id="foo", test_status="success")
print("control (keywords):", fallback._events)
sys.exit(1 if bad else 0)
