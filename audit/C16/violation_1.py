"""C16: "a ContentType survives rendering to a MIME string and re-parsing".

Parameter NAMES are rendered verbatim by ContentType.__repr__ but the email
parser used by _make_content_type normalises / reinterprets them:
  * upper-case letters are folded to lower case,
  * '*' is taken for RFC 2231 extended/continuation syntax ("a*" -> "a",
    "k*1" -> "k" with the value thrown away),
  * '%' (a legal RFC 2045 token character) makes the whole parameter vanish.
None of these parameters contains a quote character and type/subtype are
lower-case tokens, so all are inside the quantified domain.
"""
import sys
from testtools.content import Content
from testtools.content_type import ContentType
from testtools.testresult.real import _make_content_type

failures = 0
for params in [
    {"K": "v"},
    {"Charset": "utf8"},
    {"a*": "v"},
    {"k*1": "v"},
    {"a%b": "v"},
]:
    ct = ContentType("text", "plain", params)
    rendered = repr(ct)
    back = _make_content_type(rendered)
    print("original  :", ct.type, ct.subtype, ct.parameters)
    print("rendered  :", rendered)
    print("demanded  : re-parsed == original, i.e. parameters", ct.parameters)
    print("happened  : re-parsed parameters", back.parameters, "equal:", back == ct)
    print()
    if back != ct:
        failures += 1

# Consequence for the as_text clause: the declared charset changes across the
# round trip, so the same bytes decode differently.
ct = ContentType("text", "plain", {"Charset": "utf8"})
data = "é".encode("utf8")
before = Content(ct, lambda: [data]).as_text()
after = Content(_make_content_type(repr(ct)), lambda: [data]).as_text()
print("as_text before round trip:", ascii(before), " after:", ascii(after))
if before != after:
    failures += 1

sys.exit(1 if failures else 0)
