"""C16: as_text() equals decoding the whole byte string in the declared charset
("all byte strings").

charset utf-8-sig, byte string b"\xef" or b"\xef\xbb" (a truncated BOM):
bytes.decode("utf-8-sig") raises UnicodeDecodeError, but Content.as_text()
returns '' - the bytes are silently swallowed because the final
decoder.decode(b"", True) call of the stdlib incremental decoder returns
("", 0) for a BOM prefix even when final=True, and Content._iter_text never
checks that the decoder's buffer was drained.
"""
import sys
from testtools.content import Content
from testtools.content_type import ContentType

ct = ContentType("text", "plain", {"charset": "utf-8-sig"})
failures = 0
for data in [b"\xef", b"\xef\xbb"]:
    try:
        expected = ascii(data.decode("utf-8-sig"))
    except UnicodeDecodeError as e:
        expected = "UnicodeDecodeError"
    for chunks in ([data], [data[:1], data[1:]], [b"", data]):
        c = Content(ct, lambda chunks=chunks: iter(chunks))
        try:
            got = ascii(c.as_text())
        except UnicodeDecodeError:
            got = "UnicodeDecodeError"
        print("bytes=%r chunks=%r" % (data, chunks))
        print("  demanded : same outcome as bytes.decode('utf-8-sig'):", expected)
        print("  happened :", got)
        if got != expected:
            failures += 1
sys.exit(1 if failures else 0)
