"""C16: "the copies made when details are gathered are snapshots unaffected by
later changes to the source".

_copy_content() snapshots the byte chunks but re-uses the source's ContentType
OBJECT (a plain mutable object whose .parameters dict is public).  A later
in-place change of the source's content type therefore changes the type - and
the text - of the already-gathered copy.
"""
import sys
from testtools.content import Content
from testtools.content_type import ContentType
from testtools.testcase import gather_details

ct = ContentType("text", "plain", {"charset": "latin-1"})
source = Content(ct, lambda: [b"\xc3\xa9"])
target = {}
gather_details({"log": source}, target)
copy = target["log"]
before = (repr(copy.content_type), copy.as_text())

# later changes to the source
source.content_type.parameters["charset"] = "utf8"
source.content_type.subtype = "x-changed"

after = (repr(copy.content_type), copy.as_text())
print("demanded : copy unchanged:", ascii(before))
print("happened : copy is now   :", ascii(after))
print("copy.content_type is source.content_type:", copy.content_type is source.content_type)
sys.exit(0 if before == after else 1)
