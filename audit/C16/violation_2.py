"""C16: "as_text() of a text content equals decoding the whole byte string in
the declared charset ... however the bytes are split into chunks".

With charset utf-16 / utf-32 and a byte string that has no BOM,
bytes.decode() succeeds (native byte order) but Content.as_text() raises
UnicodeError("UTF-16 stream does not start with BOM") - for EVERY chunking,
including the single-chunk one - because Content._iter_text uses
codecs.getincrementaldecoder(), whose utf-16/utf-32 decoders refuse BOM-less
input.
"""
import sys
from testtools.content import Content
from testtools.content_type import ContentType

failures = 0
for charset, text in [("utf-16", "hi\U0001f600"), ("utf-32", "hi\U0001f600"),
                      ("UTF-16", "a"), ("utf16", "a"), ("u32", "a")]:
    native = charset.lower().replace("-", "").replace("utf", "").replace("u", "")
    data = text.encode("utf-%s-le" % native if sys.byteorder == "little"
                       else "utf-%s-be" % native)
    expected = data.decode(charset)  # works: native byte order assumed
    for chunks in ([data], [data[:1], data[1:]], [b"", data, b""],
                   [data[i:i + 1] for i in range(len(data))]):
        c = Content(ContentType("text", "plain", {"charset": charset}),
                    lambda chunks=chunks: iter(chunks))
        try:
            got = c.as_text()
            outcome = ascii(got)
            ok = got == expected
        except Exception as e:
            outcome = "raised %s: %s" % (type(e).__name__, e)
            ok = False
        if not ok:
            failures += 1
        print("charset=%s bytes=%r chunks=%d" % (charset, data, len(chunks)))
        print("  demanded : as_text() == bytes.decode(%r) == %s"
              % (charset, ascii(expected)))
        print("  happened :", outcome)
sys.exit(1 if failures else 0)
