"""C16: as_text() must not depend on how the bytes are cut into chunks.

For the declared charset "punycode" (a str<->bytes text codec of the standard
library) the stdlib "incremental" decoder decodes every chunk as if it were a
complete string, so Content.as_text() depends on the chunking: one cut gives a
different text, most cuts raise.
"""
import sys
from testtools.content import Content
from testtools.content_type import ContentType

ct = ContentType("text", "plain", {"charset": "punycode"})
failures = 0
for text in ["a", "bücher", "\U0001f600"]:
    data = text.encode("punycode")
    expected = data.decode("punycode")
    assert expected == text
    for chunks in ([data], [data[:1], data[1:]], [data[:-1], data[-1:]],
                   [data[i:i + 1] for i in range(len(data))]):
        c = Content(ct, lambda chunks=chunks: iter(chunks))
        try:
            got = c.as_text()
            outcome = ascii(got)
            ok = got == expected
        except Exception as e:
            outcome = "raised %s: %s" % (type(e).__name__, e)
            ok = False
        print("bytes=%r chunks=%r" % (data, chunks))
        print("  demanded :", ascii(expected))
        print("  happened :", outcome)
        if not ok:
            failures += 1
sys.exit(1 if failures else 0)
