"""C09 violation 1: a time() supplied before the first startTest is lost when
startTestRun() is not called explicitly (ExtendedToStreamDecorator starts the
run itself and in doing so forgets the supplied time)."""
import datetime, sys
from testtools.testresult.real import (
    ExtendedToStreamDecorator, StreamToExtendedDecorator, CopyStreamResult, utc)
from testtools.testresult.doubles import ExtendedTestResult, StreamResult
from testtools.testcase import PlaceHolder

T1 = datetime.datetime(2020, 1, 1, 0, 0, 1, tzinfo=utc)
T2 = datetime.datetime(2020, 1, 1, 0, 0, 2, tzinfo=utc)

target = ExtendedTestResult()
stream = StreamResult()
e2s = ExtendedToStreamDecorator(
    CopyStreamResult([stream, StreamToExtendedDecorator(target)]))

test = PlaceHolder("pkg.mod.Test.test_a")
# The history a unittest-style runner / subunit protocol server produces:
# no startTestRun (TestCase.run(result) never calls it on a supplied result).
e2s.time(T1)
e2s.startTest(test)
e2s.time(T2)
e2s.addSuccess(test)
e2s.stopTest(test)
e2s.stopTestRun()

inprogress = [e for e in stream._events if e[0] == "status"][0]
times = [e[1] for e in target._events if e[0] == "time"]
print("supplied times           :", [T1, T2])
print("inprogress event stamp   :", inprogress.timestamp)
print("times replayed to target :", times)
ok = inprogress.timestamp == T1 and times == [T1, T2]
if not ok:
    print("VIOLATION: the time supplied before startTest (%s) was dropped and "
          "replaced by the wall clock" % T1)

# Same root cause: tags() before the implicit start raises.
e2s2 = ExtendedToStreamDecorator(StreamToExtendedDecorator(ExtendedTestResult()))
try:
    e2s2.tags({"global"}, set())
    print("tags() before first startTest: accepted")
except AttributeError as e:
    ok = False
    print("VIOLATION: tags() before the first startTest raised AttributeError:", e)
sys.exit(0 if ok else 1)
