"""C09 violation 2: a text/* detail whose bytes do not decode under its declared
charset makes addFailure/addError/addExpectedFailure raise out of
ExtendedToStreamDecorator; the final status event is never emitted, and the
test is replayed at stopTestRun as a hung test (expected failure -> failure)."""
import sys
from testtools.testresult.real import (
    ExtendedToStreamDecorator, StreamToExtendedDecorator, CopyStreamResult)
from testtools.testresult.doubles import ExtendedTestResult, StreamResult
from testtools.testcase import PlaceHolder
from testtools.content import Content
from testtools.content_type import ContentType

target = ExtendedTestResult()
stream = StreamResult()
e2s = ExtendedToStreamDecorator(
    CopyStreamResult([stream, StreamToExtendedDecorator(target)]))
test = PlaceHolder("pkg.mod.Test.test_a")
payload = [b"output: \xff\xfe", b"", b" end"]
detail = Content(ContentType("text", "plain", {"charset": "utf8"}), lambda: payload)

e2s.startTestRun()
e2s.startTest(test)
raised = None
try:
    e2s.addExpectedFailure(test, details={"log": detail})
except Exception as e:
    raised = e
e2s.stopTest(test)
e2s.stopTestRun()

finals = [e for e in stream._events
          if e[0] == "status" and e.test_status not in (None, "inprogress")]
outcomes = [e for e in target._events if e[0].startswith("add")]
print("demanded : one final 'xfail' status event; target gets addExpectedFailure "
      "with detail 'log' = %r" % b"".join(payload))
print("raised   :", repr(raised))
print("final status events in stream :", [e.test_status for e in finals])
print("outcomes replayed to target   :", [(e[0], sorted(e[2])) for e in outcomes])
ok = (raised is None and [e.test_status for e in finals] == ["xfail"]
      and [e[0] for e in outcomes] == ["addExpectedFailure"])
if not ok:
    print("VIOLATION: outcome not preserved / stream has no final status event")
sys.exit(0 if ok else 1)
