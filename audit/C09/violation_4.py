"""C09 violation 4: the content type of a detail is not reproduced identically:
mixed-case type/subtype/parameter names are lower-cased and a parameter value
that has the shape of an RFC 2047 encoded-word is decoded."""
import sys
from testtools.testresult.real import (
    ExtendedToStreamDecorator, StreamToExtendedDecorator)
from testtools.testresult.doubles import ExtendedTestResult
from testtools.testcase import PlaceHolder
from testtools.content import Content
from testtools.content_type import ContentType

cases = [
    # a registered IANA media type with a capital letter in the subtype
    ContentType("application", "vnd.ms-excel.sheet.macroEnabled.12"),
    # parameter value exactly as found in a MIME part header
    ContentType("application", "octet-stream",
                {"name": "=?UTF-8?Q?r=C3=A9sum=C3=A9.bin?="}),
    ContentType("text", "plain", {"Charset": "utf8"}),
]
bad = 0
for ct in cases:
    target = ExtendedTestResult()
    e2s = ExtendedToStreamDecorator(StreamToExtendedDecorator(target))
    test = PlaceHolder("pkg.mod.Test.test_a")
    e2s.startTestRun()
    e2s.startTest(test)
    e2s.addSuccess(test, details={"att": Content(ct, lambda: [b"\x00data"])})
    e2s.stopTest(test)
    e2s.stopTestRun()
    got = [e for e in target._events if e[0] == "addSuccess"][0][2]["att"].content_type
    same = got == ct
    print("sent     : %s/%s %r" % (ct.type, ct.subtype, ct.parameters))
    print("received : %s/%s %r  -> %s" % (got.type, got.subtype, got.parameters,
                                          "identical" if same else "DIFFERENT"))
    bad += not same
if bad:
    print("VIOLATION: %d content types changed in the round trip" % bad)
sys.exit(1 if bad else 0)
