"""C09 violation 3: an empty skip reason ('') is lost."""
import sys
import testtools
from testtools.testresult.real import (
    ExtendedToStreamDecorator, StreamToExtendedDecorator)
from testtools.testresult.doubles import ExtendedTestResult
from testtools.testcase import PlaceHolder

test = PlaceHolder("pkg.mod.Test.test_a")

def history(result):
    result.startTestRun()
    result.startTest(test)
    result.addSkip(test, reason="")
    result.stopTest(test)
    result.stopTestRun()

direct = testtools.TestResult()
history(direct)
via = testtools.TestResult()
history(ExtendedToStreamDecorator(StreamToExtendedDecorator(via)))
double = ExtendedTestResult()
history(ExtendedToStreamDecorator(StreamToExtendedDecorator(double)))

print("skip reasons, TestResult fed directly  :", list(direct.skip_reasons))
print("skip reasons, after the round trip     :", list(via.skip_reasons))
print("addSkip call seen by a recording result:",
      [e[0:1] + e[2:] for e in double._events if e[0] == "addSkip"])
ok = list(direct.skip_reasons) == list(via.skip_reasons)
if not ok:
    print("VIOLATION: skip reason '' was supplied but no 'reason' reaches the "
          "target (it reports %r)" % list(via.skip_reasons)[0])
sys.exit(0 if ok else 1)
